/-
The streaming decoder over a plain byte queue (`unpackAbs`), the proof that the decoder over
the ring buffer computes exactly that on `rb.abs` for every well-formed ring (so it cannot depend
on capacity, offsets or wrap position), and the laws of the abstract decoder from which
chunking independence follows.
-/
import OAP.Model.Stream
import OAP.Proofs.Ring
import OAP.Proofs.Metadata
set_option linter.unusedSimpArgs false
namespace OAP
namespace Frame
open Ring

/-! ### the abstract decoder -/

/-- the three length bytes at the head of the queue -/
def b3 : Bytes → UInt8 × UInt8 × UInt8
  | a :: b :: c :: _ => (a, b, c)
  | _ => (0, 0, 0)

/-- byte 0 of a frame into the header -/
def parse0 (v : Ver) (h : Header) (b : UInt8) : Header :=
  { h with beginUnpack := true, type := usType v b, verify := usVerify v b,
           gzip := usGzip v b, reserve := usReserve v b }

def stCmd (s : Header × Bytes) : Header × Bytes :=
  ({ s.1 with isUnpacked := true, cmdCode := Q.u8 s.2 }, s.2.drop 1)
def stRid (s : Header × Bytes) : Header × Bytes :=
  if s.1.type == tReq || s.1.type == tResp then ({ s.1 with requestId := Q.u32 s.2 }, s.2.drop 4) else s
def stTimeout (s : Header × Bytes) : Header × Bytes :=
  if s.1.type == tReq then ({ s.1 with timeout := Q.u16 s.2 }, s.2.drop 2) else s
def stStatus (s : Header × Bytes) : Header × Bytes :=
  if s.1.type == tResp then ({ s.1 with statusCode := Q.u8 s.2 }, s.2.drop 1) else s
def stMdLen (v : Ver) (s : Header × Bytes) : Header × Bytes :=
  match v with
  | .v1 => s
  | .v2 => ({ s.1 with metadataLength := Q.u16 s.2 }, s.2.drop 2)
def stLen (v : Ver) (s : Header × Bytes) : Header × Bytes :=
  ({ s.1 with bodyLength := usBodyLen v (b3 s.2).1 (b3 s.2).2.1 (b3 s.2).2.2 }, s.2.drop 3)

/-- the rest of the header (after byte 0) read off the queue -/
def restAbs (v : Ver) (h : Header) (q : Bytes) : Header × Bytes :=
  stLen v (stMdLen v (stStatus (stTimeout (stRid (stCmd (h, q))))))

theorem len3_spec (f e : Bytes) (a b c : UInt8) (h : f ++ e = [a, b, c]) : len3 f e = .ok (a, b, c) := by
  match f, h with
  | [], h => simp at h; subst h; simp [len3, Bytes.idx]
  | [x], h => simp at h; obtain ⟨rfl, rfl⟩ := h; simp [len3, Bytes.idx]
  | [x, y], h => simp at h; obtain ⟨rfl, rfl, rfl⟩ := h; simp [len3, Bytes.idx]
  | [x, y, z], h => simp at h; obtain ⟨rfl, rfl, rfl, rfl⟩ := h; simp [len3, Bytes.idx]
  | _ :: _ :: _ :: _ :: _, h => simp at h

theorem len3_peek (rb : Ring) (wf : rb.WF) (h3 : 3 ≤ rb.abs.length) :
    len3 (rb.peek 3).1 (rb.peek 3).2 = .ok (b3 rb.abs) := by
  have hpk := peek_abs rb wf 3
  match habs : rb.abs, h3 with
  | a :: b :: c :: t, _ =>
    rw [habs] at hpk
    exact len3_spec _ _ a b c (by simpa using hpk)

/-! ### `Header.unpackRest` over the ring is `restAbs` over the queue -/

theorem type_cases (t : UInt8) (h : isUnknown t = false) : t = tReq ∨ t = tResp ∨ t = tPush := by
  simp only [isUnknown, Bool.not_eq_false', Bool.or_eq_true, beq_iff_eq] at h
  rcases h with (h | h) | h <;> simp [h]

theorem tReq_ne_tResp : (tReq == tResp) = false := by decide
theorem tResp_ne_tReq : (tResp == tReq) = false := by decide
theorem tPush_ne_tReq : (tPush == tReq) = false := by decide
theorem tPush_ne_tResp : (tPush == tResp) = false := by decide

/-- remaining header length (after byte 0) per type and version -/
theorem remain_req (v : Ver) : hdrLen v tReq - 1 = match v with | .v1 => 10 | .v2 => 12 := by
  cases v <;> rfl
theorem remain_resp (v : Ver) : hdrLen v tResp - 1 = match v with | .v1 => 9 | .v2 => 11 := by
  cases v <;> rfl
theorem remain_push (v : Ver) : hdrLen v tPush - 1 = match v with | .v1 => 4 | .v2 => 6 := by
  cases v <;> rfl

theorem unpackRest_abs (v : Ver) (h : Header) (rb : Ring) (wf : rb.WF)
    (hk : isUnknown h.type = false) (hlen : hdrLen v h.type - 1 ≤ rb.abs.length) :
    ∃ rb', Header.unpackRest v h rb = { done := true, h := (restAbs v h rb.abs).1, rb := rb' } ∧
      rb'.WF ∧ rb'.abs = (restAbs v h rb.abs).2 := by
  rcases type_cases h.type hk with ht | ht | ht <;> cases v
  · rw [ht, remain_req] at hlen; simp only at hlen
    have wf1 := retrieve_wf rb wf 1
    have wf2 := retrieve_wf _ wf1 4
    have wf3 := retrieve_wf _ wf2 2
    have wf4 := retrieve_wf _ wf3 3
    have l3 := len3_peek _ wf3 (by simp [retrieve_abs, wf, wf1, wf2]; omega)
    refine ⟨_, ?_, wf4, ?_⟩
    · simp [Header.unpackRest, ht, peekUint8_abs, peekUint16_abs, peekUint32_abs, wf, wf1, wf2, l3, retrieve_abs, tReq_ne_tResp,
        restAbs, stCmd, stRid, stTimeout, stStatus, stMdLen, stLen]
    · simp [ht, wf, wf1, wf2, wf3, retrieve_abs, tReq_ne_tResp,
        restAbs, stCmd, stRid, stTimeout, stStatus, stMdLen, stLen]
  · rw [ht, remain_req] at hlen; simp only at hlen
    have wf1 := retrieve_wf rb wf 1
    have wf2 := retrieve_wf _ wf1 4
    have wf3 := retrieve_wf _ wf2 2
    have wf4 := retrieve_wf _ wf3 2
    have wf5 := retrieve_wf _ wf4 3
    have l3 := len3_peek _ wf4 (by simp [retrieve_abs, wf, wf1, wf2, wf3]; omega)
    refine ⟨_, ?_, wf5, ?_⟩
    · simp [Header.unpackRest, ht, peekUint8_abs, peekUint16_abs, peekUint32_abs, wf, wf1, wf2, wf3, l3, retrieve_abs, tReq_ne_tResp,
        restAbs, stCmd, stRid, stTimeout, stStatus, stMdLen, stLen]
    · simp [ht, wf, wf1, wf2, wf3, wf4, retrieve_abs, tReq_ne_tResp,
        restAbs, stCmd, stRid, stTimeout, stStatus, stMdLen, stLen]
  · rw [ht, remain_resp] at hlen; simp only at hlen
    have wf1 := retrieve_wf rb wf 1
    have wf2 := retrieve_wf _ wf1 4
    have wf3 := retrieve_wf _ wf2 1
    have wf4 := retrieve_wf _ wf3 3
    have l3 := len3_peek _ wf3 (by simp [retrieve_abs, wf, wf1, wf2]; omega)
    refine ⟨_, ?_, wf4, ?_⟩
    · simp [Header.unpackRest, ht, peekUint8_abs, peekUint32_abs, wf, wf1, wf2, l3, retrieve_abs, tResp_ne_tReq,
        restAbs, stCmd, stRid, stTimeout, stStatus, stMdLen, stLen]
    · simp [ht, wf, wf1, wf2, wf3, retrieve_abs, tResp_ne_tReq,
        restAbs, stCmd, stRid, stTimeout, stStatus, stMdLen, stLen]
  · rw [ht, remain_resp] at hlen; simp only at hlen
    have wf1 := retrieve_wf rb wf 1
    have wf2 := retrieve_wf _ wf1 4
    have wf3 := retrieve_wf _ wf2 1
    have wf4 := retrieve_wf _ wf3 2
    have wf5 := retrieve_wf _ wf4 3
    have l3 := len3_peek _ wf4 (by simp [retrieve_abs, wf, wf1, wf2, wf3]; omega)
    refine ⟨_, ?_, wf5, ?_⟩
    · simp [Header.unpackRest, ht, peekUint8_abs, peekUint16_abs, peekUint32_abs, wf, wf1, wf2, wf3, l3, retrieve_abs, tResp_ne_tReq,
        restAbs, stCmd, stRid, stTimeout, stStatus, stMdLen, stLen]
    · simp [ht, wf, wf1, wf2, wf3, wf4, retrieve_abs, tResp_ne_tReq,
        restAbs, stCmd, stRid, stTimeout, stStatus, stMdLen, stLen]
  · rw [ht, remain_push] at hlen; simp only at hlen
    have wf1 := retrieve_wf rb wf 1
    have wf2 := retrieve_wf _ wf1 3
    have l3 := len3_peek _ wf1 (by simp [retrieve_abs, wf]; omega)
    refine ⟨_, ?_, wf2, ?_⟩
    · simp [Header.unpackRest, ht, peekUint8_abs, wf, l3, retrieve_abs, tPush_ne_tReq, tPush_ne_tResp,
        restAbs, stCmd, stRid, stTimeout, stStatus, stMdLen, stLen]
    · simp [ht, wf, wf1, retrieve_abs, tPush_ne_tReq, tPush_ne_tResp,
        restAbs, stCmd, stRid, stTimeout, stStatus, stMdLen, stLen]
  · rw [ht, remain_push] at hlen; simp only at hlen
    have wf1 := retrieve_wf rb wf 1
    have wf2 := retrieve_wf _ wf1 2
    have wf3 := retrieve_wf _ wf2 3
    have l3 := len3_peek _ wf2 (by simp [retrieve_abs, wf, wf1]; omega)
    refine ⟨_, ?_, wf3, ?_⟩
    · simp [Header.unpackRest, ht, peekUint8_abs, peekUint16_abs, wf, wf1, l3, retrieve_abs, tPush_ne_tReq, tPush_ne_tResp,
        restAbs, stCmd, stRid, stTimeout, stStatus, stMdLen, stLen]
    · simp [ht, wf, wf1, wf2, retrieve_abs, tPush_ne_tReq, tPush_ne_tResp,
        restAbs, stCmd, stRid, stTimeout, stStatus, stMdLen, stLen]

/-! ### the body phase -/

/-- metadata length announced by the header (v2 only) -/
def s_mdLenOf (v : Ver) (h : Header) : Nat := match v with | .v1 => 0 | .v2 => h.metadataLength.toNat
/-- bytes that must be queued after the header before the frame is complete -/
def needLen (v : Ver) (h : Header) : Nat :=
  h.bodyLength.toNat + s_mdLenOf v h + (if h.verify == 1 then trailerLen else 0)

/-- decode the metadata block into the packet (v2 only) -/
def withValues (v : Ver) (p : Packet) (md : Bytes) : Res Packet :=
  match v with
  | .v1 => .ok p
  | .v2 => match Metadata.rawPairs md with
    | .ok ps => .ok { p with values := ps }
    | .err e => .err e
    | .panic w => .panic w

/-- the body phase over the queue once the whole frame is queued (`needLen v h ≤ q.length`) -/
def bodyFull (v : Ver) (gz : GzOracle) (codec : UInt8) (h : Header) (q : Bytes) : SRes × Option Header × Bytes :=
  let md := q.take (s_mdLenOf v h)
  let q1 := q.drop (s_mdLenOf v h)
  let body := q1.take h.bodyLength.toNat
  let q2 := q1.drop h.bodyLength.toNat
  match withValues v { Header.toPacket h codec with body := body } md with
  | .err e => (.err e, none, q2)
  | .panic w => (.panic w, none, q2)
  | .ok p =>
    let p1 : Packet := if h.verify == 1 then { p with nonce := Q.u64 q2, signature := (q2.drop 8).take 16 } else p
    let q3 := if h.verify == 1 then (q2.drop 8).drop 16 else q2
    if h.gzip == 1 then
      match Gzip.decompress gz p1.body with
      | .ok b => (.pkt { p1 with body := b }, none, q3)
      | .err e => (.err e, none, q3)
      | .panic w => (.panic w, none, q3)
    else (.pkt p1, none, q3)

/-- the body phase over the queue -/
def bodyAbs (v : Ver) (gz : GzOracle) (codec : UInt8) (h : Header) (q : Bytes) : SRes × Option Header × Bytes :=
  if q.length < needLen v h then (.more, some h, q) else bodyFull v gz codec h q

theorem unpackBody_abs (v : Ver) (gz : GzOracle) (codec : UInt8) (h : Header) (rb : Ring) (wf : rb.WF) :
    (unpackBody v gz codec h rb).res = (bodyAbs v gz codec h rb.abs).1 ∧
    (unpackBody v gz codec h rb).pend = (bodyAbs v gz codec h rb.abs).2.1 ∧
    (unpackBody v gz codec h rb).rb.WF ∧
    (unpackBody v gz codec h rb).rb.abs = (bodyAbs v gz codec h rb.abs).2.2 := by
  have hla := length_abs rb wf
  by_cases hlt : rb.abs.length < needLen v h
  · have hlt' := hlt
    simp only [needLen, s_mdLenOf] at hlt'
    cases v <;> simp_all [unpackBody, bodyAbs]
  · have hge : needLen v h ≤ rb.abs.length := by omega
    simp only [needLen] at hge
    have htl : trailerLen = 24 := rfl
    cases v
    · simp only [s_mdLenOf, Nat.add_zero] at hge
      by_cases hv : (h.verify == 1) = true
      · simp only [hv, ↓reduceIte] at hge
        have hnl : ¬ rb.abs.length < h.bodyLength.toNat + trailerLen := by omega
        obtain ⟨rb2, hr2, wf2, ha2⟩ := read_abs rb wf h.bodyLength.toNat (by omega)
        have wf3 := retrieve_wf rb2 wf2 8
        have ha3 := retrieve_abs rb2 wf2 8
        obtain ⟨rb4, hr4, wf4, ha4⟩ := read_abs _ wf3 16 (by rw [length_abs _ wf3, ha3, ha2]; simp only [List.length_drop]; omega)
        by_cases hg : (h.gzip == 1) = true
        · cases hd : Gzip.decompress gz (List.take h.bodyLength.toNat rb.abs) <;>
            simp [unpackBody, bodyAbs, bodyFull, hla, hnl, needLen, s_mdLenOf, hr2, hv, hg, hd, withValues, peekUint64_abs, wf2, Gen.v1_NonceLength, Gen.v1_SignatureLength, hr4, wf4, ha4, ha3, ha2]
        · simp [unpackBody, bodyAbs, bodyFull, hla, hnl, needLen, s_mdLenOf, hr2, hv, hg, withValues, peekUint64_abs, wf2, Gen.v1_NonceLength, Gen.v1_SignatureLength, hr4, wf4, ha4, ha3, ha2]
      · simp only [hv, Bool.false_eq_true, ↓reduceIte, Nat.add_zero] at hge
        have hnl : ¬ rb.abs.length < h.bodyLength.toNat := by omega
        obtain ⟨rb2, hr2, wf2, ha2⟩ := read_abs rb wf h.bodyLength.toNat (by omega)
        by_cases hg : (h.gzip == 1) = true
        · cases hd : Gzip.decompress gz (List.take h.bodyLength.toNat rb.abs) <;>
            simp [unpackBody, bodyAbs, bodyFull, hla, hnl, needLen, s_mdLenOf, hr2, hv, hg, hd, withValues, wf2, ha2]
        · simp [unpackBody, bodyAbs, bodyFull, hla, hnl, needLen, s_mdLenOf, hr2, hv, hg, withValues, wf2, ha2]
    · simp only [s_mdLenOf] at hge
      have hnl' := hlt
      simp only [needLen, s_mdLenOf, beq_iff_eq] at hnl'
      obtain ⟨rb1, hr1, wf1, ha1⟩ := read_abs rb wf h.metadataLength.toNat (by omega)
      obtain ⟨rb2, hr2, wf2, ha2⟩ := read_abs rb1 wf1 h.bodyLength.toNat (by
        rw [length_abs _ wf1, ha1]; simp only [List.length_drop]; omega)
      cases hrp : Metadata.rawPairs (List.take h.metadataLength.toNat rb.abs) with
      | err e =>
        simp [unpackBody, bodyAbs, bodyFull, hla, hlt, hnl', s_mdLenOf, hr1, hr2, hrp, withValues, wf2, ha2, ha1]
      | panic w =>
        simp [unpackBody, bodyAbs, bodyFull, hla, hlt, hnl', s_mdLenOf, hr1, hr2, hrp, withValues, wf2, ha2, ha1]
      | ok ps =>
        by_cases hv : (h.verify == 1) = true
        · simp only [hv, ↓reduceIte] at hge
          have hnl2 : ¬ rb.abs.length < h.bodyLength.toNat + h.metadataLength.toNat + trailerLen := by omega
          have wf3 := retrieve_wf rb2 wf2 8
          have ha3 := retrieve_abs rb2 wf2 8
          obtain ⟨rb4, hr4, wf4, ha4⟩ := read_abs _ wf3 16 (by
            rw [length_abs _ wf3, ha3, ha2, ha1]; simp only [List.length_drop]; omega)
          by_cases hg : (h.gzip == 1) = true
          · cases hd : Gzip.decompress gz (List.take h.bodyLength.toNat (List.drop h.metadataLength.toNat rb.abs)) <;>
              simp [unpackBody, bodyAbs, bodyFull, hla, hlt, hnl2, s_mdLenOf, hr1, hr2, hrp, hv, hg, hd, withValues, peekUint64_abs, wf2, Gen.v1_NonceLength, Gen.v1_SignatureLength, hr4, wf4, ha4, ha3, ha2, ha1]
          · simp [unpackBody, bodyAbs, bodyFull, hla, hlt, hnl2, s_mdLenOf, hr1, hr2, hrp, hv, hg, withValues, peekUint64_abs, wf2, Gen.v1_NonceLength, Gen.v1_SignatureLength, hr4, wf4, ha4, ha3, ha2, ha1]
        · simp only [hv, Bool.false_eq_true, ↓reduceIte, Nat.add_zero] at hge
          have hnl2 : ¬ rb.abs.length < h.bodyLength.toNat + h.metadataLength.toNat := by omega
          by_cases hg : (h.gzip == 1) = true
          · cases hd : Gzip.decompress gz (List.take h.bodyLength.toNat (List.drop h.metadataLength.toNat rb.abs)) <;>
              simp [unpackBody, bodyAbs, bodyFull, hla, hlt, hnl2, s_mdLenOf, hr1, hr2, hrp, hv, hg, hd, withValues, wf2, ha2, ha1]
          · simp [unpackBody, bodyAbs, bodyFull, hla, hlt, hnl2, s_mdLenOf, hr1, hr2, hrp, hv, hg, withValues, wf2, ha2, ha1]

/-! ### one whole call: ring = queue -/

/-- the part of `Header.Unpack` after byte 0 is in the header -/
def hdrTail (v : Ver) (h : Header) (rb : Ring) : HOut :=
  if isUnknown h.type then { done := false, err := some "invalid packet type", h := h, rb := rb }
  else if rb.length < hdrLen v h.type - 1 then { done := false, h := h, rb := rb }
  else Header.unpackRest v h rb

/-- what `protocolVx.Unpack` does with the outcome of `Header.Unpack` -/
def finish (v : Ver) (gz : GzOracle) (codec : UInt8) (o : HOut) : SOut :=
  match o.panic, o.err with
  | some w, _ => { res := .panic w, pend := none, rb := o.rb }
  | none, some e => { res := .err e, pend := none, rb := o.rb }
  | none, none =>
    if !o.done then { res := .more, pend := some o.h, rb := o.rb }
    else unpackBody v gz codec o.h o.rb

/-- the same over the queue -/
def tailAbs (v : Ver) (gz : GzOracle) (codec : UInt8) (s : Header × Bytes) : SRes × Option Header × Bytes :=
  if isUnknown s.1.type then (.err "invalid packet type", none, s.2)
  else if s.2.length < hdrLen v s.1.type - 1 then (.more, some s.1, s.2)
  else bodyAbs v gz codec (restAbs v s.1 s.2).1 (restAbs v s.1 s.2).2

/-- one call of `protocolVx.Unpack` over a plain byte queue: result, parked header, remaining queue -/
def unpackAbs (v : Ver) (gz : GzOracle) (codec : UInt8) (pend : Option Header) (q : Bytes) :
    SRes × Option Header × Bytes :=
  let h := pend.getD {}
  if h.isUnpacked then bodyAbs v gz codec h q
  else if q.length = 0 then (.more, some h, q)
  else tailAbs v gz codec (if h.beginUnpack then (h, q) else (parse0 v h (Q.u8 q), q.drop 1))

theorem finish_tail_abs (v : Ver) (gz : GzOracle) (codec : UInt8) (h : Header) (rb : Ring) (wf : rb.WF) :
    (finish v gz codec (hdrTail v h rb)).res = (tailAbs v gz codec (h, rb.abs)).1 ∧
    (finish v gz codec (hdrTail v h rb)).pend = (tailAbs v gz codec (h, rb.abs)).2.1 ∧
    (finish v gz codec (hdrTail v h rb)).rb.WF ∧
    (finish v gz codec (hdrTail v h rb)).rb.abs = (tailAbs v gz codec (h, rb.abs)).2.2 := by
  have hla := length_abs rb wf
  unfold hdrTail tailAbs
  by_cases hk : isUnknown h.type = true
  · simp [hk, finish, wf]
  · simp only [hk, Bool.false_eq_true, ↓reduceIte, hla]
    by_cases hl : rb.abs.length < hdrLen v h.type - 1
    · simp [hl, finish, wf]
    · simp only [hl, ↓reduceIte]
      obtain ⟨rb', he, wf', ha'⟩ := unpackRest_abs v h rb wf (by simpa using hk) (by omega)
      rw [he, ← ha']
      simp only [finish, Bool.not_true, Bool.false_eq_true, ↓reduceIte]
      exact unpackBody_abs v gz codec _ rb' wf'

theorem unpackRing_eq_abs (v : Ver) (gz : GzOracle) (codec : UInt8) (pend : Option Header) (rb : Ring)
    (wf : rb.WF) :
    (unpackRing v gz codec pend rb).res = (unpackAbs v gz codec pend rb.abs).1 ∧
    (unpackRing v gz codec pend rb).pend = (unpackAbs v gz codec pend rb.abs).2.1 ∧
    (unpackRing v gz codec pend rb).rb.WF ∧
    (unpackRing v gz codec pend rb).rb.abs = (unpackAbs v gz codec pend rb.abs).2.2 := by
  have hla := length_abs rb wf
  unfold unpackRing unpackAbs
  generalize pend.getD {} = h
  by_cases hu : h.isUnpacked = true
  · simp only [hu, Bool.not_true, Bool.false_eq_true, ↓reduceIte]
    exact unpackBody_abs v gz codec h rb wf
  · simp only [hu, Bool.not_false, ↓reduceIte, Bool.false_eq_true]
    by_cases h0 : rb.abs.length = 0
    · simp [Header.unpackRing, hla, h0, wf]
    · simp only [h0, ↓reduceIte]
      change (finish v gz codec (Header.unpackRing v h rb)).res = _ ∧ (finish v gz codec (Header.unpackRing v h rb)).pend = _ ∧
        (finish v gz codec (Header.unpackRing v h rb)).rb.WF ∧ (finish v gz codec (Header.unpackRing v h rb)).rb.abs = _
      by_cases hb : h.beginUnpack = true
      · have : Header.unpackRing v h rb = hdrTail v h rb := by
          simp [Header.unpackRing, hla, h0, hu, hb, hdrTail]
        rw [this]; simp only [hb, ↓reduceIte]
        exact finish_tail_abs v gz codec h rb wf
      · have : Header.unpackRing v h rb = hdrTail v (parse0 v h (Q.u8 rb.abs)) (rb.retrieve 1) := by
          simp [Header.unpackRing, hla, h0, hu, hb, hdrTail, peekUint8_abs, wf, parse0]
        rw [this]; simp only [hb, Bool.false_eq_true, ↓reduceIte, ← retrieve_abs rb wf 1]
        exact finish_tail_abs v gz codec _ _ (retrieve_wf rb wf 1)

/-! ### the abstract decoder never panics -/

theorem rawPairs_no_panic (d : Bytes) (w : String) : Metadata.rawPairs d ≠ .panic w := by
  have : (Metadata.rawPairs d).isPanic = false := by
    unfold Metadata.rawPairs
    split
    · rfl
    · split
      · rfl
      · exact Metadata.pairsLoop_total d.length d (Nat.le_refl _)
  intro h; rw [h] at this; simp [Res.isPanic] at this

theorem withValues_no_panic (v : Ver) (p : Packet) (md : Bytes) (w : String) : withValues v p md ≠ .panic w := by
  cases v
  · simp [withValues]
  · have := rawPairs_no_panic md
    simp only [withValues]
    cases h : Metadata.rawPairs md <;> simp_all

theorem decompress_no_panic (gz : GzOracle) (bs : Bytes) (w : String) : Gzip.decompress gz bs ≠ .panic w := by
  unfold Gzip.decompress; split <;> simp

theorem bodyFull_no_panic (v : Ver) (gz : GzOracle) (codec : UInt8) (h : Header) (q : Bytes) (w : String) :
    (bodyFull v gz codec h q).1 ≠ .panic w := by
  unfold bodyFull
  simp only
  split
  · simp
  · rename_i w' hw; exact absurd hw (withValues_no_panic _ _ _ _)
  · split
    · split
      · simp
      · simp
      · rename_i w' hw; exact absurd hw (decompress_no_panic _ _ _)
    · simp

theorem bodyFull_ne_more (v : Ver) (gz : GzOracle) (codec : UInt8) (h : Header) (q : Bytes) :
    (bodyFull v gz codec h q).1 ≠ .more := by
  unfold bodyFull
  simp only
  split
  · simp
  · simp
  · split
    · split <;> simp
    · simp

theorem bodyFull_pend (v : Ver) (gz : GzOracle) (codec : UInt8) (h : Header) (q : Bytes) :
    (bodyFull v gz codec h q).2.1 = none := by
  unfold bodyFull
  simp only
  split
  · simp
  · simp
  · split
    · split <;> simp
    · simp

theorem bodyAbs_no_panic (v : Ver) (gz : GzOracle) (codec : UInt8) (h : Header) (q : Bytes) (w : String) :
    (bodyAbs v gz codec h q).1 ≠ .panic w := by
  unfold bodyAbs; split
  · simp
  · exact bodyFull_no_panic _ _ _ _ _ _

theorem tailAbs_no_panic (v : Ver) (gz : GzOracle) (codec : UInt8) (s : Header × Bytes) (w : String) :
    (tailAbs v gz codec s).1 ≠ .panic w := by
  unfold tailAbs; split
  · simp
  · split
    · simp
    · exact bodyAbs_no_panic _ _ _ _ _ _

theorem unpackAbs_no_panic (v : Ver) (gz : GzOracle) (codec : UInt8) (pend : Option Header) (q : Bytes) (w : String) :
    (unpackAbs v gz codec pend q).1 ≠ .panic w := by
  unfold unpackAbs; simp only; split
  · exact bodyAbs_no_panic _ _ _ _ _ _
  · split
    · simp
    · exact tailAbs_no_panic _ _ _ _ _

/-! ### locality of the header phase: it reads exactly `hdrLen - 1` bytes -/

theorem excons (n : Nat) (w : Bytes) (h : n + 1 ≤ w.length) : ∃ a t, w = a :: t ∧ n ≤ t.length := by
  cases w with
  | nil => simp at h
  | cons a t => exact ⟨a, t, rfl, by simpa using h⟩

/-- peel one byte off a list known to be long enough -/
macro "decons" h:ident : tactic =>
  `(tactic| (obtain ⟨_, _, he, h'⟩ := excons _ _ $h; subst he; clear $h; have $h := h'; clear h'))

theorem restAbs_local (v : Ver) (h : Header) (t : Bytes) (hk : isUnknown h.type = false)
    (hl : hdrLen v h.type - 1 ≤ t.length) :
    restAbs v h t = ((restAbs v h (t.take (hdrLen v h.type - 1))).1, t.drop (hdrLen v h.type - 1)) := by
  rcases type_cases h.type hk with ht | ht | ht <;> cases v
  · rw [ht, remain_req] at hl ⊢; simp only at hl ⊢
    iterate 10 decons hl
    simp [restAbs, stCmd, stRid, stTimeout, stStatus, stMdLen, stLen, ht, tReq_ne_tResp, Q.u8, Q.u16, Q.u32, b3]
  · rw [ht, remain_req] at hl ⊢; simp only at hl ⊢
    iterate 12 decons hl
    simp [restAbs, stCmd, stRid, stTimeout, stStatus, stMdLen, stLen, ht, tReq_ne_tResp, Q.u8, Q.u16, Q.u32, b3]
  · rw [ht, remain_resp] at hl ⊢; simp only at hl ⊢
    iterate 9 decons hl
    simp [restAbs, stCmd, stRid, stTimeout, stStatus, stMdLen, stLen, ht, tResp_ne_tReq, Q.u8, Q.u16, Q.u32, b3]
  · rw [ht, remain_resp] at hl ⊢; simp only at hl ⊢
    iterate 11 decons hl
    simp [restAbs, stCmd, stRid, stTimeout, stStatus, stMdLen, stLen, ht, tResp_ne_tReq, Q.u8, Q.u16, Q.u32, b3]
  · rw [ht, remain_push] at hl ⊢; simp only at hl ⊢
    iterate 4 decons hl
    simp [restAbs, stCmd, stRid, stTimeout, stStatus, stMdLen, stLen, ht, tPush_ne_tReq, tPush_ne_tResp, Q.u8, Q.u16, Q.u32, b3]
  · rw [ht, remain_push] at hl ⊢; simp only at hl ⊢
    iterate 6 decons hl
    simp [restAbs, stCmd, stRid, stTimeout, stStatus, stMdLen, stLen, ht, tPush_ne_tReq, tPush_ne_tResp, Q.u8, Q.u16, Q.u32, b3]

@[simp] theorem stRid_type (s : Header × Bytes) : (stRid s).1.type = s.1.type := by unfold stRid; split <;> rfl
@[simp] theorem stTimeout_type (s : Header × Bytes) : (stTimeout s).1.type = s.1.type := by unfold stTimeout; split <;> rfl
@[simp] theorem stStatus_type (s : Header × Bytes) : (stStatus s).1.type = s.1.type := by unfold stStatus; split <;> rfl
@[simp] theorem stMdLen_type (v : Ver) (s : Header × Bytes) : (stMdLen v s).1.type = s.1.type := by cases v <;> rfl
@[simp] theorem stRid_unp (s : Header × Bytes) : (stRid s).1.isUnpacked = s.1.isUnpacked := by unfold stRid; split <;> rfl
@[simp] theorem stTimeout_unp (s : Header × Bytes) : (stTimeout s).1.isUnpacked = s.1.isUnpacked := by unfold stTimeout; split <;> rfl
@[simp] theorem stStatus_unp (s : Header × Bytes) : (stStatus s).1.isUnpacked = s.1.isUnpacked := by unfold stStatus; split <;> rfl
@[simp] theorem stMdLen_unp (v : Ver) (s : Header × Bytes) : (stMdLen v s).1.isUnpacked = s.1.isUnpacked := by cases v <;> rfl

theorem restAbs_isUnpacked (v : Ver) (h : Header) (t : Bytes) : (restAbs v h t).1.isUnpacked = true := by
  simp [restAbs, stLen, stCmd]

theorem restAbs_type (v : Ver) (h : Header) (t : Bytes) : (restAbs v h t).1.type = h.type := by
  simp [restAbs, stLen, stCmd]

/-! ### the parked states and the laws of the abstract decoder -/

/-- `Parked v pend u`: `pend` is what the decoder parks in the context after having consumed exactly
the bytes `u` of the current frame, starting from a fresh context. A parked complete header
always belongs to a frame with something still to read (`0 < needLen`): a call that completes a
header goes on to the body in the same call, and an empty remainder is delivered at once. -/
inductive Parked (v : Ver) : Option Header → Bytes → Prop
  | fresh : Parked v none []
  | idle : Parked v (some {}) []
  | byte0 (b : UInt8) : isUnknown (usType v b) = false → Parked v (some (parse0 v {} b)) [b]
  | header (b : UInt8) (w : Bytes) : isUnknown (usType v b) = false →
      w.length = hdrLen v (usType v b) - 1 →
      0 < needLen v (restAbs v (parse0 v {} b) w).1 →
      Parked v (some (restAbs v (parse0 v {} b) w).1) (b :: w)

/-- the invariant on the parked header: it is one the decoder itself can have parked -/
def PendOK (v : Ver) (pend : Option Header) : Prop := ∃ u, Parked v pend u

theorem pendOK_none (v : Ver) : PendOK v none := ⟨[], .fresh⟩

theorem unpackAbs_nil (v : Ver) (gz : GzOracle) (codec : UInt8) :
    unpackAbs v gz codec none [] = (.more, some {}, []) := by
  simp [unpackAbs]

theorem unpackAbs_cons (v : Ver) (gz : GzOracle) (codec : UInt8) (b : UInt8) (t : Bytes) :
    unpackAbs v gz codec none (b :: t) = tailAbs v gz codec (parse0 v {} b, t) := by
  simp [unpackAbs, Q.u8]

theorem s_hdrLen_pos (v : Ver) (t : UInt8) : 0 < hdrLen v t - 1 := by
  unfold hdrLen; cases v <;> (repeat' split) <;> decide

/-- KEY LEMMA: a call depends only on the undelivered bytes — resuming from a parked header is
the same as decoding the re-assembled stream from scratch. -/
theorem unpack_unread (v : Ver) (gz : GzOracle) (codec : UInt8) (pend : Option Header) (u q : Bytes)
    (hp : Parked v pend u) :
    unpackAbs v gz codec pend q = unpackAbs v gz codec none (u ++ q) := by
  cases hp with
  | fresh => rfl
  | idle => rfl
  | byte0 b hk =>
    rw [List.singleton_append, unpackAbs_cons]
    cases q with
    | nil =>
      have := s_hdrLen_pos v (usType v b)
      simp [unpackAbs, parse0, tailAbs, hk, this]
    | cons a q => simp [unpackAbs, parse0]
  | header b w hk hw hn =>
    rw [List.cons_append, unpackAbs_cons]
    have hk' : isUnknown (parse0 v {} b).type = false := hk
    have hl : hdrLen v (parse0 v {} b).type - 1 ≤ (w ++ q).length := by
      simp only [List.length_append]; show hdrLen v (usType v b) - 1 ≤ _; omega
    have hl2 : hdrLen v (parse0 v {} b).type - 1 ≤ w.length := by
      show hdrLen v (usType v b) - 1 ≤ _; omega
    have e1 := restAbs_local v _ (w ++ q) hk' hl
    have ht : (w ++ q).take (hdrLen v (parse0 v {} b).type - 1) = w := by
      rw [List.take_append_of_le_length hl2, List.take_of_length_le]
      show _ ≤ hdrLen v (usType v b) - 1; omega
    have hd : (w ++ q).drop (hdrLen v (parse0 v {} b).type - 1) = q := by
      rw [List.drop_append_of_le_length hl2, List.drop_of_length_le, List.nil_append]
      show _ ≤ hdrLen v (usType v b) - 1; omega
    rw [ht, hd] at e1
    simp only [tailAbs, hk', Bool.false_eq_true, ↓reduceIte, show ¬ (w ++ q).length < hdrLen v (parse0 v {} b).type - 1 by omega, e1]
    simp [unpackAbs, restAbs_isUnpacked]

@[simp] theorem parse0_type (v : Ver) (h : Header) (b : UInt8) : (parse0 v h b).type = usType v b := rfl

theorem bodyAbs_more (v : Ver) (gz : GzOracle) (codec : UInt8) (h : Header) (q : Bytes)
    (hm : (bodyAbs v gz codec h q).1 = .more) :
    q.length < needLen v h ∧ bodyAbs v gz codec h q = (.more, some h, q) := by
  unfold bodyAbs at hm ⊢
  split
  · rename_i hl; exact ⟨hl, rfl⟩
  · rename_i hl; simp only [hl, ↓reduceIte] at hm; exact absurd hm (bodyFull_ne_more _ _ _ _ _)

theorem bodyAbs_ge (v : Ver) (gz : GzOracle) (codec : UInt8) (h : Header) (q : Bytes)
    (hl : needLen v h ≤ q.length) : bodyAbs v gz codec h q = bodyFull v gz codec h q := by
  simp [bodyAbs, show ¬ q.length < needLen v h by omega]

theorem bodyAbs_pend_none (v : Ver) (gz : GzOracle) (codec : UInt8) (h : Header) (q : Bytes)
    (hm : (bodyAbs v gz codec h q).1 ≠ .more) : (bodyAbs v gz codec h q).2.1 = none := by
  unfold bodyAbs at hm ⊢
  split
  · rename_i hl; simp [hl] at hm
  · exact bodyFull_pend _ _ _ _ _

theorem tailAbs_pend_none (v : Ver) (gz : GzOracle) (codec : UInt8) (s : Header × Bytes)
    (hm : (tailAbs v gz codec s).1 ≠ .more) : (tailAbs v gz codec s).2.1 = none := by
  unfold tailAbs at hm ⊢
  split
  · rfl
  · rename_i hk
    simp only [hk, ↓reduceIte] at hm
    split
    · rename_i hl; simp [hl] at hm
    · rename_i hl; simp only [hl, ↓reduceIte] at hm; exact bodyAbs_pend_none _ _ _ _ _ hm

/-- a result other than `more` clears the parked header -/
theorem unpackAbs_pend_none (v : Ver) (gz : GzOracle) (codec : UInt8) (pend : Option Header) (q : Bytes)
    (hm : (unpackAbs v gz codec pend q).1 ≠ .more) : (unpackAbs v gz codec pend q).2.1 = none := by
  unfold unpackAbs at hm ⊢
  simp only at hm ⊢
  split
  · rename_i hu; simp only [hu, ↓reduceIte] at hm; exact bodyAbs_pend_none _ _ _ _ _ hm
  · rename_i hu
    simp only [hu, Bool.false_eq_true, ↓reduceIte] at hm
    by_cases h0 : q.length = 0
    · simp [h0] at hm
    · simp only [h0, ↓reduceIte] at hm ⊢
      exact tailAbs_pend_none _ _ _ _ hm

/-- a `more` result from a fresh state parks exactly the bytes it has taken off the queue -/
theorem unpack_more_unread (v : Ver) (gz : GzOracle) (codec : UInt8) (u : Bytes) (p' : Option Header) (q' : Bytes)
    (h : unpackAbs v gz codec none u = (.more, p', q')) : ∃ u', Parked v p' u' ∧ u' ++ q' = u := by
  cases u with
  | nil =>
    rw [unpackAbs_nil] at h
    simp only [Prod.mk.injEq, true_and] at h
    obtain ⟨rfl, rfl⟩ := h
    exact ⟨[], .idle, rfl⟩
  | cons b t =>
    rw [unpackAbs_cons] at h
    unfold tailAbs at h
    simp only [parse0_type] at h
    by_cases hk : isUnknown (usType v b) = true
    · simp [hk] at h
    · have hk' : isUnknown (usType v b) = false := by simpa using hk
      simp only [hk, Bool.false_eq_true, ↓reduceIte] at h
      by_cases hl : t.length < hdrLen v (usType v b) - 1
      · simp only [hl, ↓reduceIte, Prod.mk.injEq, true_and] at h
        obtain ⟨rfl, rfl⟩ := h
        exact ⟨[b], .byte0 b hk', rfl⟩
      · simp only [hl, ↓reduceIte] at h
        have hl' : hdrLen v (usType v b) - 1 ≤ t.length := by omega
        have hloc := restAbs_local v (parse0 v {} b) t hk' hl'
        simp only [parse0_type] at hloc
        have hm := bodyAbs_more v gz codec _ _ (by rw [h])
        rw [hm.2] at h
        simp only [Prod.mk.injEq, true_and] at h
        obtain ⟨rfl, rfl⟩ := h
        have hlen := hm.1
        rw [hloc] at hlen ⊢
        simp only at hlen ⊢
        refine ⟨b :: t.take (hdrLen v (usType v b) - 1), ?_, ?_⟩
        · exact .header b _ hk' (by rw [List.length_take]; omega) (by omega)
        · show b :: (List.take _ t ++ List.drop _ t) = b :: t
          rw [List.take_append_drop]

/-- the parked-header invariant is preserved by every call, whatever arrives -/
theorem pend_ok_preserved (v : Ver) (gz : GzOracle) (codec : UInt8) (pend : Option Header) (q : Bytes)
    (hp : PendOK v pend) : PendOK v (unpackAbs v gz codec pend q).2.1 := by
  obtain ⟨u, hu⟩ := hp
  by_cases hm : (unpackAbs v gz codec pend q).1 = .more
  · rw [unpack_unread v gz codec pend u q hu] at hm ⊢
    obtain ⟨u', hu', _⟩ := unpack_more_unread v gz codec (u ++ q) _ _ (by
      rw [← hm]; )
    exact ⟨u', hu'⟩
  · rw [unpackAbs_pend_none v gz codec pend q hm]; exact pendOK_none v

/-! ### more bytes never change a decision already made -/

theorem u64_append (l c : Bytes) (h : 8 ≤ l.length) : Q.u64 (l ++ c) = Q.u64 l := by
  iterate 8 decons h
  simp [Q.u64]

theorem take_app (l c : Bytes) (n : Nat) (h : n ≤ l.length) : (l ++ c).take n = l.take n :=
  List.take_append_of_le_length h
theorem drop_app (l c : Bytes) (n : Nat) (h : n ≤ l.length) : (l ++ c).drop n = l.drop n ++ c :=
  List.drop_append_of_le_length h

theorem bodyFull_append (v : Ver) (gz : GzOracle) (codec : UInt8) (h : Header) (r c : Bytes)
    (hl : needLen v h ≤ r.length) :
    bodyFull v gz codec h (r ++ c) =
      ((bodyFull v gz codec h r).1, (bodyFull v gz codec h r).2.1, (bodyFull v gz codec h r).2.2 ++ c) := by
  simp only [needLen] at hl
  have htl : trailerLen = 24 := rfl
  have e1 := take_app r c (s_mdLenOf v h) (by omega)
  have e2 := drop_app r c (s_mdLenOf v h) (by omega)
  have e3 := take_app (r.drop (s_mdLenOf v h)) c h.bodyLength.toNat (by rw [List.length_drop]; omega)
  have e4 := drop_app (r.drop (s_mdLenOf v h)) c h.bodyLength.toNat (by rw [List.length_drop]; omega)
  unfold bodyFull
  simp only [e1, e2, e3, e4]
  cases hwv : withValues v { Header.toPacket h codec with body := (r.drop (s_mdLenOf v h)).take h.bodyLength.toNat } (r.take (s_mdLenOf v h)) with
  | err e => rfl
  | panic w => rfl
  | ok p =>
    simp only
    by_cases hv : (h.verify == 1) = true
    · simp only [hv, ↓reduceIte] at hl ⊢
      have e5 := u64_append ((r.drop (s_mdLenOf v h)).drop h.bodyLength.toNat) c (by simp only [List.length_drop]; omega)
      have e6 := drop_app ((r.drop (s_mdLenOf v h)).drop h.bodyLength.toNat) c 8 (by simp only [List.length_drop]; omega)
      have e7 := take_app (((r.drop (s_mdLenOf v h)).drop h.bodyLength.toNat).drop 8) c 16 (by simp only [List.length_drop]; omega)
      have e8 := drop_app (((r.drop (s_mdLenOf v h)).drop h.bodyLength.toNat).drop 8) c 16 (by simp only [List.length_drop]; omega)
      simp only [e5, e6, e7, e8]
      split
      · split <;> rfl
      · rfl
    · simp only [hv, Bool.false_eq_true, ↓reduceIte]
      split
      · split <;> rfl
      · rfl

/-- a delivered packet has consumed exactly the announced `needLen` bytes after the header -/
theorem bodyFull_rest (v : Ver) (gz : GzOracle) (codec : UInt8) (h : Header) (q : Bytes) (k : Packet)
    (hp : (bodyFull v gz codec h q).1 = .pkt k) : (bodyFull v gz codec h q).2.2 = q.drop (needLen v h) := by
  have htl : trailerLen = 24 := rfl
  unfold bodyFull at hp ⊢
  cases hwv : withValues v { Header.toPacket h codec with body := (q.drop (s_mdLenOf v h)).take h.bodyLength.toNat } (q.take (s_mdLenOf v h)) with
  | err e => simp [hwv] at hp
  | panic w => simp [hwv] at hp
  | ok p =>
    simp only [hwv] at hp ⊢
    by_cases hv : (h.verify == 1) = true
    · have : needLen v h = s_mdLenOf v h + h.bodyLength.toNat + 8 + 16 := by
        simp only [needLen, hv, ↓reduceIte, htl]; omega
      simp only [hv, ↓reduceIte, this, List.drop_drop] at hp ⊢
      split
      · split <;> first | rfl | simp_all
      · rfl
    · have : needLen v h = s_mdLenOf v h + h.bodyLength.toNat := by
        simp only [needLen, hv, Bool.false_eq_true, ↓reduceIte]; omega
      simp only [hv, Bool.false_eq_true, ↓reduceIte, this, List.drop_drop] at hp ⊢
      split
      · split <;> first | rfl | simp_all
      · rfl

/-- the header of the frame that starts with byte `b` followed by `t` (when complete) -/
def s_hdrOf (v : Ver) (b : UInt8) (t : Bytes) : Header :=
  (restAbs v (parse0 v {} b) (t.take (hdrLen v (usType v b) - 1))).1

theorem unpack_fresh_unknown (v : Ver) (gz : GzOracle) (codec : UInt8) (b : UInt8) (t : Bytes)
    (hk : isUnknown (usType v b) = true) :
    unpackAbs v gz codec none (b :: t) = (.err "invalid packet type", none, t) := by
  rw [unpackAbs_cons]; simp [tailAbs, hk]

theorem unpack_fresh_short (v : Ver) (gz : GzOracle) (codec : UInt8) (b : UInt8) (t : Bytes)
    (hk : isUnknown (usType v b) = false) (hl : t.length < hdrLen v (usType v b) - 1) :
    unpackAbs v gz codec none (b :: t) = (.more, some (parse0 v {} b), t) := by
  rw [unpackAbs_cons]; simp [tailAbs, hk, hl]

theorem unpack_fresh_full (v : Ver) (gz : GzOracle) (codec : UInt8) (b : UInt8) (t : Bytes)
    (hk : isUnknown (usType v b) = false) (hl : hdrLen v (usType v b) - 1 ≤ t.length) :
    unpackAbs v gz codec none (b :: t) =
      bodyAbs v gz codec (s_hdrOf v b t) (t.drop (hdrLen v (usType v b) - 1)) := by
  have hloc := restAbs_local v (parse0 v {} b) t hk hl
  simp only [parse0_type] at hloc
  rw [unpackAbs_cons]
  simp only [tailAbs, parse0_type, hk, Bool.false_eq_true, ↓reduceIte,
    show ¬ t.length < hdrLen v (usType v b) - 1 by omega]
  rw [hloc]; rfl

theorem hdrOf_append (v : Ver) (b : UInt8) (t c : Bytes) (hl : hdrLen v (usType v b) - 1 ≤ t.length) :
    s_hdrOf v b (t ++ c) = s_hdrOf v b t := by
  unfold s_hdrOf; rw [take_app _ _ _ hl]

/-- appending bytes never changes a decision already made (packet or error) -/
theorem unpack_append (v : Ver) (gz : GzOracle) (codec : UInt8) (u c : Bytes) (s : SRes) (p' : Option Header)
    (r : Bytes) (h : unpackAbs v gz codec none u = (s, p', r)) (hs : s ≠ .more) :
    unpackAbs v gz codec none (u ++ c) = (s, p', r ++ c) := by
  cases u with
  | nil => rw [unpackAbs_nil] at h; simp only [Prod.mk.injEq] at h; exact absurd h.1.symm hs
  | cons b t =>
    rw [List.cons_append]
    by_cases hk : isUnknown (usType v b) = true
    · rw [unpack_fresh_unknown v gz codec b t hk] at h
      rw [unpack_fresh_unknown v gz codec b _ hk]
      simp only [Prod.mk.injEq] at h ⊢
      obtain ⟨h1, h2, h3⟩ := h
      exact ⟨h1, h2, by rw [h3]⟩
    · have hk' : isUnknown (usType v b) = false := by simpa using hk
      by_cases hl : t.length < hdrLen v (usType v b) - 1
      · rw [unpack_fresh_short v gz codec b t hk' hl] at h
        simp only [Prod.mk.injEq] at h; exact absurd h.1.symm hs
      · have hl' : hdrLen v (usType v b) - 1 ≤ t.length := by omega
        rw [unpack_fresh_full v gz codec b t hk' hl'] at h
        rw [unpack_fresh_full v gz codec b _ hk' (by rw [List.length_append]; omega),
          hdrOf_append v b t c hl', drop_app _ _ _ hl']
        have hge : needLen v (s_hdrOf v b t) ≤ (t.drop (hdrLen v (usType v b) - 1)).length := by
          by_cases hlt : (t.drop (hdrLen v (usType v b) - 1)).length < needLen v (s_hdrOf v b t)
          · simp only [bodyAbs, hlt, ↓reduceIte, Prod.mk.injEq] at h; exact absurd h.1.symm hs
          · omega
        rw [bodyAbs_ge _ _ _ _ _ hge] at h
        rw [bodyAbs_ge _ _ _ _ _ (by rw [List.length_append]; omega), bodyFull_append _ _ _ _ _ _ hge, h]

theorem pushLen_le_hdrLen (v : Ver) (t : UInt8) : pushLen v ≤ hdrLen v t := by
  unfold hdrLen; cases v <;> (repeat' split) <;> decide

/-- a packet delivered from a fresh state has consumed exactly header + metadata + body + trailer -/
theorem unpack_pkt_consumed (v : Ver) (gz : GzOracle) (codec : UInt8) (u : Bytes) (k : Packet)
    (p' : Option Header) (r : Bytes) (h : unpackAbs v gz codec none u = (.pkt k, p', r)) :
    ∃ b t, u = b :: t ∧ isUnknown (usType v b) = false ∧ hdrLen v (usType v b) - 1 ≤ t.length ∧
      needLen v (s_hdrOf v b t) ≤ (t.drop (hdrLen v (usType v b) - 1)).length ∧
      bodyFull v gz codec (s_hdrOf v b t) (t.drop (hdrLen v (usType v b) - 1)) = (.pkt k, p', r) ∧
      p' = none ∧ r = u.drop (hdrLen v (usType v b) + needLen v (s_hdrOf v b t)) ∧
      hdrLen v (usType v b) + needLen v (s_hdrOf v b t) ≤ u.length := by
  cases u with
  | nil => rw [unpackAbs_nil] at h; simp at h
  | cons b t =>
    by_cases hk : isUnknown (usType v b) = true
    · rw [unpack_fresh_unknown v gz codec b t hk] at h; simp at h
    · have hk' : isUnknown (usType v b) = false := by simpa using hk
      by_cases hl : t.length < hdrLen v (usType v b) - 1
      · rw [unpack_fresh_short v gz codec b t hk' hl] at h; simp at h
      · have hl' : hdrLen v (usType v b) - 1 ≤ t.length := by omega
        rw [unpack_fresh_full v gz codec b t hk' hl'] at h
        have hge : needLen v (s_hdrOf v b t) ≤ (t.drop (hdrLen v (usType v b) - 1)).length := by
          by_cases hlt : (t.drop (hdrLen v (usType v b) - 1)).length < needLen v (s_hdrOf v b t)
          · simp only [bodyAbs, hlt, ↓reduceIte, Prod.mk.injEq] at h; simp at h
          · omega
        rw [bodyAbs_ge _ _ _ _ _ hge] at h
        have hrest := bodyFull_rest v gz codec _ _ k (by rw [h])
        have hpn := bodyFull_pend v gz codec (s_hdrOf v b t) (t.drop (hdrLen v (usType v b) - 1))
        rw [h] at hrest hpn
        simp only at hrest hpn
        have hpos := s_hdrLen_pos v (usType v b)
        refine ⟨b, t, rfl, hk', hl', hge, h, hpn, ?_, ?_⟩
        · rw [hrest, List.drop_drop]
          have : hdrLen v (usType v b) + needLen v (s_hdrOf v b t)
              = (hdrLen v (usType v b) - 1 + needLen v (s_hdrOf v b t)) + 1 := by omega
          rw [this, List.drop_succ_cons]
        · rw [List.length_drop] at hge; simp only [List.length_cons]; omega

/-- progress: every packet reported from a fresh state consumes at least a whole (push) header -/
theorem unpack_pkt_lt (v : Ver) (gz : GzOracle) (codec : UInt8) (u : Bytes) (k : Packet)
    (p' : Option Header) (r : Bytes) (h : unpackAbs v gz codec none u = (.pkt k, p', r)) :
    r.length + pushLen v ≤ u.length := by
  obtain ⟨b, t, _, _, _, _, _, _, hr, hN⟩ := unpack_pkt_consumed v gz codec u k p' r h
  have := pushLen_le_hdrLen v (usType v b)
  rw [hr, List.length_drop]; omega

/-! ### the read loop and chunking independence (over the queue) -/

/-- how a drain ends: the last, non-packet result, the header left parked, the bytes left queued -/
abbrev End := SRes × Option Header × Bytes

theorem pushLen_pos (v : Ver) : 0 < pushLen v := by cases v <;> decide

/-- the read loop from a fresh context: call `Unpack` until it stops reporting packets.
Terminates because every reported packet consumes at least a header (`unpack_pkt_lt`). -/
def run (v : Ver) (gz : GzOracle) (codec : UInt8) (u : Bytes) : List Packet × End :=
  match _hu : unpackAbs v gz codec none u with
  | (.pkt k, _, r) => (k :: (run v gz codec r).1, (run v gz codec r).2)
  | e => ([], e)
termination_by u.length
decreasing_by
  have := unpack_pkt_lt v gz codec u k _ r _hu
  have := pushLen_pos v
  omega

/-- the read loop from any context: the first call resumes the parked header -/
def drain (v : Ver) (gz : GzOracle) (codec : UInt8) (pend : Option Header) (q : Bytes) : List Packet × End :=
  match unpackAbs v gz codec pend q with
  | (.pkt k, _, r) => (k :: (run v gz codec r).1, (run v gz codec r).2)
  | e => ([], e)

theorem run_eq_drain (v : Ver) (gz : GzOracle) (codec : UInt8) (u : Bytes) :
    run v gz codec u = drain v gz codec none u := by
  rw [run, drain]
  split <;> simp_all


/-- resumption: draining from a parked header is draining the re-assembled stream from scratch -/
theorem drain_spec (v : Ver) (gz : GzOracle) (codec : UInt8) (pend : Option Header) (u q : Bytes)
    (hp : Parked v pend u) : drain v gz codec pend q = run v gz codec (u ++ q) := by
  rw [run_eq_drain, drain, drain, unpack_unread v gz codec pend u q hp]

/-- once the loop has stopped on an error, later bytes change nothing but the queue -/
theorem run_append_stop (v : Ver) (gz : GzOracle) (codec : UInt8) (c : Bytes) :
    ∀ (u : Bytes) (ks : List Packet) (s : SRes) (p : Option Header) (r : Bytes),
      run v gz codec u = (ks, (s, p, r)) → s ≠ .more →
      run v gz codec (u ++ c) = (ks, (s, p, r ++ c)) := by
  intro u
  induction hn : u.length using Nat.strongRecOn generalizing u with
  | _ n ih =>
    intro ks s p r hd hs
    rw [run_eq_drain, drain] at hd ⊢
    match hu : unpackAbs v gz codec none u, hd with
    | (.pkt k, p1, r1), hd =>
      simp only [hu] at hd
      have hlt := unpack_pkt_lt v gz codec u k p1 r1 hu
      have := pushLen_pos v
      rw [unpack_append v gz codec u c _ _ _ hu (by simp)]
      simp only
      cases hr : run v gz codec r1 with
      | mk ks1 e1 =>
        rw [hr] at hd
        simp only [Prod.mk.injEq] at hd
        obtain ⟨rfl, rfl⟩ := hd
        rw [ih r1.length (by omega) r1 rfl ks1 s p r hr hs]
    | (.more, p1, r1), hd => simp at hd; exact absurd hd.2.1.symm hs
    | (.err e, p1, r1), hd =>
      simp only [Prod.mk.injEq] at hd
      obtain ⟨rfl, rfl, rfl, rfl⟩ := hd
      rw [unpack_append v gz codec u c _ _ _ hu (by simp)]
    | (.panic w, p1, r1), hd =>
      simp only [Prod.mk.injEq] at hd
      obtain ⟨rfl, rfl, rfl, rfl⟩ := hd
      rw [unpack_append v gz codec u c _ _ _ hu (by simp)]

/-- resumability: if the loop over `u` stops for want of data, the loop over `u ++ c` delivers the
same packets and then goes on exactly as the parked state does when `c` arrives -/
theorem drain_append (v : Ver) (gz : GzOracle) (codec : UInt8) (c : Bytes) :
    ∀ (u : Bytes) (ks : List Packet) (p : Option Header) (r : Bytes),
      run v gz codec u = (ks, (.more, p, r)) →
      run v gz codec (u ++ c) =
        (ks ++ (drain v gz codec p (r ++ c)).1, (drain v gz codec p (r ++ c)).2) := by
  intro u
  induction hn : u.length using Nat.strongRecOn generalizing u with
  | _ n ih =>
    intro ks p r hd
    rw [run_eq_drain, drain] at hd
    match hu : unpackAbs v gz codec none u, hd with
    | (.pkt k, p1, r1), hd =>
      simp only [hu] at hd
      have hlt := unpack_pkt_lt v gz codec u k p1 r1 hu
      have := pushLen_pos v
      rw [run_eq_drain v gz codec (u ++ c), drain, unpack_append v gz codec u c _ _ _ hu (by simp)]
      simp only
      cases hr : run v gz codec r1 with
      | mk ks1 e1 =>
        rw [hr] at hd
        simp only [Prod.mk.injEq] at hd
        obtain ⟨rfl, rfl⟩ := hd
        rw [ih r1.length (by omega) r1 rfl ks1 p r hr]
        simp
    | (.more, p1, r1), hd =>
      simp only [Prod.mk.injEq] at hd
      obtain ⟨rfl, _, rfl, rfl⟩ := hd
      obtain ⟨u', hpk, hu'⟩ := unpack_more_unread v gz codec u p1 r1 hu
      rw [drain_spec v gz codec p1 u' (r1 ++ c) hpk, ← List.append_assoc, hu']
      simp
    | (.err e, p1, r1), hd => simp at hd
    | (.panic w, p1, r1), hd => simp at hd

/-- a connection's read side: parked header, queued bytes, packets delivered so far, and the
result that closed it (an `Unpack` error closes the connection: nothing more is fed) -/
structure Conn where
  pend : Option Header := none
  q : Bytes := []
  pkts : List Packet := []
  stop : Option SRes := none

/-- one chunk arrives: append it to the queue and run the read loop -/
def Conn.step (v : Ver) (gz : GzOracle) (codec : UInt8) (c : Conn) (chunk : Bytes) : Conn :=
  match c.stop with
  | some _ => c
  | none =>
    let o := drain v gz codec c.pend (c.q ++ chunk)
    { pend := o.2.2.1, q := o.2.2.2, pkts := c.pkts ++ o.1,
      stop := if o.2.1 = .more then none else some o.2.1 }

/-- feed the chunks one by one into a fresh connection -/
def feed (v : Ver) (gz : GzOracle) (codec : UInt8) (chunks : List Bytes) : Conn :=
  chunks.foldl (Conn.step v gz codec) {}

/-- what the application sees: the delivered packets and the error verdict -/
def Conn.obs (c : Conn) : List Packet × Option SRes := (c.pkts, c.stop)

/-- the connection state is the one the one-shot loop over the whole stream `U` ends in -/
def Conn.Tracks (v : Ver) (gz : GzOracle) (codec : UInt8) (c : Conn) (U : Bytes) : Prop :=
  c.pkts = (run v gz codec U).1 ∧
  ((run v gz codec U).2.1 = .more → c.stop = none ∧ c.q = (run v gz codec U).2.2.2 ∧
      ∀ q, unpackAbs v gz codec c.pend q = unpackAbs v gz codec (run v gz codec U).2.2.1 q) ∧
  ((run v gz codec U).2.1 ≠ .more → c.stop = some (run v gz codec U).2.1)

theorem tracks_init (v : Ver) (gz : GzOracle) (codec : UInt8) : Conn.Tracks v gz codec {} [] := by
  have : run v gz codec [] = ([], (.more, some {}, [])) := by
    rw [run_eq_drain, drain, unpackAbs_nil]
  simp only [Conn.Tracks, this]
  refine ⟨by trivial, fun _ => ⟨by trivial, by trivial, fun q => rfl⟩, fun h => absurd rfl h⟩

theorem tracks_step (v : Ver) (gz : GzOracle) (codec : UInt8) (c : Conn) (U x : Bytes)
    (h : c.Tracks v gz codec U) : (c.step v gz codec x).Tracks v gz codec (U ++ x) := by
  obtain ⟨h1, h2, h3⟩ := h
  cases hr : run v gz codec U with
  | mk ks e =>
    obtain ⟨s, p, r⟩ := e
    rw [hr] at h1 h2 h3
    simp only at h1 h2 h3
    by_cases hs : s = .more
    · subst hs
      obtain ⟨hst, hq, hp⟩ := h2 rfl
      have hd : drain v gz codec c.pend (c.q ++ x) = drain v gz codec p (r ++ x) := by
        rw [drain, drain, hp, hq]
      have ha := drain_append v gz codec x U ks p r hr
      simp only [Conn.step, hst, hd, Conn.Tracks, ha, h1]
      refine ⟨by trivial, fun hm => ?_, fun hm => ?_⟩
      · simp [hm]
      · simp [hm]
    · have hst := h3 hs
      have ha := run_append_stop v gz codec x U ks s p r hr hs
      simp only [Conn.step, hst, Conn.Tracks, ha, h1]
      exact ⟨by trivial, fun hm => absurd hm hs, fun _ => by trivial⟩

theorem tracks_foldl (v : Ver) (gz : GzOracle) (codec : UInt8) (chunks : List Bytes) :
    ∀ (c : Conn) (U : Bytes), c.Tracks v gz codec U →
      (chunks.foldl (Conn.step v gz codec) c).Tracks v gz codec (U ++ chunks.flatten) := by
  induction chunks with
  | nil => intro c U h; simpa using h
  | cons x xs ih =>
    intro c U h
    have := ih _ _ (tracks_step v gz codec c U x h)
    simpa [List.append_assoc] using this

/-- feeding chunk by chunk ends in the state of the one-shot loop over the concatenation -/
theorem feed_tracks (v : Ver) (gz : GzOracle) (codec : UInt8) (chunks : List Bytes) :
    (feed v gz codec chunks).Tracks v gz codec chunks.flatten := by
  have := tracks_foldl v gz codec chunks {} [] (tracks_init v gz codec)
  simpa [feed] using this

theorem tracks_obs (v : Ver) (gz : GzOracle) (codec : UInt8) (c : Conn) (U : Bytes)
    (h : c.Tracks v gz codec U) :
    c.obs = ((run v gz codec U).1,
             if (run v gz codec U).2.1 = .more then none else some (run v gz codec U).2.1) := by
  obtain ⟨h1, h2, h3⟩ := h
  unfold Conn.obs
  by_cases hs : (run v gz codec U).2.1 = .more
  · simp [h1, hs, (h2 hs).1]
  · simp [h1, hs, h3 hs]

/-- CHUNKING INDEPENDENCE: however the byte stream is cut into chunks, the delivered packets and
the error verdict are those of feeding the whole stream at once -/
theorem chunking_independent (v : Ver) (gz : GzOracle) (codec : UInt8) (chunks : List Bytes) :
    (feed v gz codec chunks).obs = (feed v gz codec [chunks.flatten]).obs := by
  rw [tracks_obs v gz codec _ _ (feed_tracks v gz codec chunks)]
  have := tracks_obs v gz codec _ _ (feed_tracks v gz codec [chunks.flatten])
  simpa using this.symm

/-! ### the same loop over the concrete ring buffer -/

/-- how a ring drain ends -/
abbrev REnd := SRes × Option Header × Ring

/-- the read loop over the ring from a fresh context. The guard `o.rb.length < rb.length` only makes
the definition structurally terminating; `runRing_abs` shows it never fails on a well-formed
ring (the fallback result `panic "no progress"` is unreachable). -/
def runRing (v : Ver) (gz : GzOracle) (codec : UInt8) (rb : Ring) : List Packet × REnd :=
  match (unpackRing v gz codec none rb).res with
  | .pkt k =>
    if _h : (unpackRing v gz codec none rb).rb.length < rb.length then
      (k :: (runRing v gz codec (unpackRing v gz codec none rb).rb).1,
       (runRing v gz codec (unpackRing v gz codec none rb).rb).2)
    else ([k], (.panic "no progress", none, (unpackRing v gz codec none rb).rb))
  | s => ([], (s, (unpackRing v gz codec none rb).pend, (unpackRing v gz codec none rb).rb))
termination_by rb.length

def drainRing (v : Ver) (gz : GzOracle) (codec : UInt8) (pend : Option Header) (rb : Ring) : List Packet × REnd :=
  match (unpackRing v gz codec pend rb).res with
  | .pkt k =>
    (k :: (runRing v gz codec (unpackRing v gz codec pend rb).rb).1,
     (runRing v gz codec (unpackRing v gz codec pend rb).rb).2)
  | s => ([], (s, (unpackRing v gz codec pend rb).pend, (unpackRing v gz codec pend rb).rb))

/-- ring drain result vs queue drain result -/
def EndRel (o : List Packet × REnd) (a : List Packet × End) : Prop :=
  o.1 = a.1 ∧ o.2.1 = a.2.1 ∧ o.2.2.1 = a.2.2.1 ∧ o.2.2.2.WF ∧ o.2.2.2.abs = a.2.2.2

theorem runRing_abs (v : Ver) (gz : GzOracle) (codec : UInt8) :
    ∀ (rb : Ring), rb.WF → EndRel (runRing v gz codec rb) (run v gz codec rb.abs) := by
  intro rb
  induction hn : rb.abs.length using Nat.strongRecOn generalizing rb with
  | _ n ih =>
    intro wf
    obtain ⟨e1, e2, e3, e4⟩ := unpackRing_eq_abs v gz codec none rb wf
    rw [runRing, run_eq_drain, drain]
    match hu : unpackAbs v gz codec none rb.abs with
    | (.pkt k, p1, r1) =>
      rw [hu] at e1 e2 e4
      simp only at e1 e2 e4
      have hlt := unpack_pkt_lt v gz codec rb.abs k p1 r1 hu
      have := pushLen_pos v
      have hl : (unpackRing v gz codec none rb).rb.length < rb.length := by
        rw [length_abs _ e3, length_abs _ wf, e4]; omega
      simp only [e1, hl, ↓reduceDIte]
      have := ih r1.length (by omega) (unpackRing v gz codec none rb).rb (by rw [e4]) e3
      rw [e4] at this
      obtain ⟨a1, a2, a3, a4, a5⟩ := this
      exact ⟨by simp [a1], a2, a3, a4, a5⟩
    | (.more, p1, r1) =>
      rw [hu] at e1 e2 e4
      simp only at e1 e2 e4
      simp only [e1]
      exact ⟨rfl, rfl, e2, e3, e4⟩
    | (.err e, p1, r1) =>
      rw [hu] at e1 e2 e4
      simp only at e1 e2 e4
      simp only [e1]
      exact ⟨rfl, rfl, e2, e3, e4⟩
    | (.panic w, p1, r1) =>
      rw [hu] at e1 e2 e4
      simp only at e1 e2 e4
      simp only [e1]
      exact ⟨rfl, rfl, e2, e3, e4⟩

theorem drainRing_abs (v : Ver) (gz : GzOracle) (codec : UInt8) (pend : Option Header) (rb : Ring)
    (wf : rb.WF) : EndRel (drainRing v gz codec pend rb) (drain v gz codec pend rb.abs) := by
  obtain ⟨e1, e2, e3, e4⟩ := unpackRing_eq_abs v gz codec pend rb wf
  rw [drainRing, drain]
  match hu : unpackAbs v gz codec pend rb.abs with
  | (.pkt k, p1, r1) =>
    rw [hu] at e1 e2 e4
    simp only at e1 e2 e4
    simp only [e1]
    have := runRing_abs v gz codec _ e3
    rw [e4] at this
    obtain ⟨a1, a2, a3, a4, a5⟩ := this
    exact ⟨by simp [a1], a2, a3, a4, a5⟩
  | (.more, p1, r1) =>
    rw [hu] at e1 e2 e4; simp only at e1 e2 e4; simp only [e1]; exact ⟨rfl, rfl, e2, e3, e4⟩
  | (.err e, p1, r1) =>
    rw [hu] at e1 e2 e4; simp only at e1 e2 e4; simp only [e1]; exact ⟨rfl, rfl, e2, e3, e4⟩
  | (.panic w, p1, r1) =>
    rw [hu] at e1 e2 e4; simp only at e1 e2 e4; simp only [e1]; exact ⟨rfl, rfl, e2, e3, e4⟩

/-- the connection over the real ring buffer: arriving chunks are `Write`-n into the ring -/
structure RConn where
  pend : Option Header := none
  rb : Ring
  pkts : List Packet := []
  stop : Option SRes := none

def RConn.step (v : Ver) (gz : GzOracle) (codec : UInt8) (c : RConn) (chunk : Bytes) : RConn :=
  match c.stop with
  | some _ => c
  | none =>
    let o := drainRing v gz codec c.pend (c.rb.write chunk)
    { pend := o.2.2.1, rb := o.2.2.2, pkts := c.pkts ++ o.1,
      stop := if o.2.1 = .more then none else some o.2.1 }

def rfeed (v : Ver) (gz : GzOracle) (codec : UInt8) (rb0 : Ring) (chunks : List Bytes) : RConn :=
  chunks.foldl (RConn.step v gz codec) { rb := rb0 }

def RConn.obs (c : RConn) : List Packet × Option SRes := (c.pkts, c.stop)

/-- simulation between the ring connection and the queue connection -/
def Sim (rc : RConn) (c : Conn) : Prop :=
  rc.pend = c.pend ∧ rc.rb.WF ∧ (c.stop = none → rc.rb.abs = c.q) ∧ rc.pkts = c.pkts ∧ rc.stop = c.stop

theorem sim_step (v : Ver) (gz : GzOracle) (codec : UInt8) (rc : RConn) (c : Conn) (x : Bytes)
    (h : Sim rc c) : Sim (rc.step v gz codec x) (c.step v gz codec x) := by
  obtain ⟨h1, h2, h3, h4, h5⟩ := h
  cases hs : c.stop with
  | some s =>
    have : rc.stop = some s := by rw [h5, hs]
    simp only [RConn.step, Conn.step, hs, this]
    exact ⟨h1, h2, fun hn => (by rw [hs] at hn; cases hn), h4, (by rw [this, hs])⟩
  | none =>
    have hrs : rc.stop = none := by rw [h5, hs]
    obtain ⟨w1, w2⟩ := write_spec rc.rb h2 x
    have := drainRing_abs v gz codec rc.pend (rc.rb.write x) w1
    rw [w2, h3 hs, h1] at this
    obtain ⟨a1, a2, a3, a4, a5⟩ := this
    simp only [RConn.step, Conn.step, hs, hrs]
    refine ⟨(by rw [h1]; exact a3), (by rw [h1]; exact a4), fun _ => (by rw [h1]; exact a5), ?_, ?_⟩
    · simp only; rw [h1, a1, h4]
    · simp only; rw [h1, a2]

theorem sim_foldl (v : Ver) (gz : GzOracle) (codec : UInt8) (chunks : List Bytes) :
    ∀ (rc : RConn) (c : Conn), Sim rc c →
      Sim (chunks.foldl (RConn.step v gz codec) rc) (chunks.foldl (Conn.step v gz codec) c) := by
  induction chunks with
  | nil => intro rc c h; exact h
  | cons x xs ih => intro rc c h; exact ih _ _ (sim_step v gz codec rc c x h)

/-- the ring connection started on ANY well-formed empty ring (any capacity, any offset) observes
what the queue connection observes -/
theorem rfeed_obs (v : Ver) (gz : GzOracle) (codec : UInt8) (rb0 : Ring) (wf : rb0.WF) (he : rb0.abs = [])
    (chunks : List Bytes) : (rfeed v gz codec rb0 chunks).obs = (feed v gz codec chunks).obs := by
  have h0 : Sim { rb := rb0 } {} := ⟨rfl, wf, fun _ => he, rfl, rfl⟩
  obtain ⟨_, _, _, h4, h5⟩ := sim_foldl v gz codec chunks _ _ h0
  unfold RConn.obs Conn.obs rfeed feed
  rw [h4, h5]

/-! ### progress -/

/-- every call that reports a packet from a state the decoder can be in takes at least one byte
off the queue, and the undelivered stream (parked header bytes ++ queue) shrinks by at least a
whole header -/
theorem unpack_pkt_progress (v : Ver) (gz : GzOracle) (codec : UInt8) (pend : Option Header) (u q : Bytes)
    (k : Packet) (p' : Option Header) (r : Bytes) (hp : Parked v pend u)
    (h : unpackAbs v gz codec pend q = (.pkt k, p', r)) :
    r.length < q.length ∧ r.length + pushLen v ≤ (u ++ q).length ∧ p' = none := by
  have h' := h
  rw [unpack_unread v gz codec pend u q hp] at h'
  have hlt := unpack_pkt_lt v gz codec (u ++ q) k p' r h'
  have hpos := pushLen_pos v
  have hpn : p' = none := by
    have := unpackAbs_pend_none v gz codec pend q (by rw [h]; simp)
    rw [h] at this; exact this
  refine ⟨?_, hlt, hpn⟩
  cases hp with
  | fresh => simp only [List.nil_append] at hlt; omega
  | idle => simp only [List.nil_append] at hlt; omega
  | byte0 b hk =>
    obtain ⟨b', t, hu, _, _, _, _, _, hr, hN⟩ := unpack_pkt_consumed v gz codec _ k p' r h'
    simp only [List.singleton_append, List.cons.injEq] at hu
    obtain ⟨rfl, rfl⟩ := hu
    have := s_hdrLen_pos v (usType v b)
    rw [hr, List.length_drop]
    simp only [List.singleton_append, List.length_cons] at hN ⊢
    omega
  | header b w hk hw hn =>
    have hb : unpackAbs v gz codec (some (restAbs v (parse0 v {} b) w).1) q
        = bodyAbs v gz codec (restAbs v (parse0 v {} b) w).1 q := by
      simp [unpackAbs, restAbs_isUnpacked]
    rw [hb] at h
    have hge : needLen v (restAbs v (parse0 v {} b) w).1 ≤ q.length := by
      by_cases hlt : q.length < needLen v (restAbs v (parse0 v {} b) w).1
      · simp only [bodyAbs, hlt, ↓reduceIte, Prod.mk.injEq] at h; simp at h
      · omega
    rw [bodyAbs_ge _ _ _ _ _ hge] at h
    have hrest := bodyFull_rest v gz codec _ _ k (by rw [h])
    rw [h] at hrest
    simp only at hrest
    rw [hrest, List.length_drop]; omega

/-! ### the streaming decoder agrees with the one-shot decoder on exactly the consumed bytes -/

theorem ub_us_type (v : Ver) (b : UInt8) : ubType v b = usType v b := by cases v <;> rfl
theorem ub_us_verify (v : Ver) (b : UInt8) : ubVerify v b = usVerify v b := by cases v <;> rfl
theorem ub_us_gzip (v : Ver) (b : UInt8) : ubGzip v b = usGzip v b := by cases v <;> rfl
theorem ub_us_reserve (v : Ver) (b : UInt8) : ubReserve v b = usReserve v b := by cases v <;> rfl
theorem ub_us_bodyLen (v : Ver) (a b c : UInt8) : ubBodyLen v a b c = usBodyLen v a b c := by cases v <;> rfl

/-- `Res.ok_bind` as a propositional (non-`rfl`) rewrite rule: used by `simp` with an explicit proof
step, which the kernel checks far faster than a definitional unfolding of a long `do` block -/
theorem ok_bind' {α β} (a : α) (f : α → Res β) : (Res.ok a >>= f) = f a := by
  show Res.bind (Res.ok a) f = f a
  unfold Res.bind; rfl
theorem pure_eq' {α} (a : α) : (pure a : Res α) = .ok a := by
  show Res.ok a = Res.ok a
  exact (rfl : Res.ok a = Res.ok a)

/-- a header without the two progress flags of the streaming decoder -/
def coreHdr (h : Header) : Header := { h with beginUnpack := false, isUnpacked := false }

/-- the one-shot header decoder on a frame whose header is complete yields the streaming header -/

theorem unpackBytes_hdr (v : Ver) (b : UInt8) (t : Bytes) (hk : isUnknown (usType v b) = false)
    (hl : hdrLen v (usType v b) - 1 ≤ t.length) :
    Header.unpackBytes v (b :: t) = .ok (coreHdr (s_hdrOf v b t), t.drop (hdrLen v (usType v b) - 1)) := by
  rcases type_cases _ hk with ht | ht | ht <;> cases v
  · rw [ht, remain_req] at hl; simp only at hl
    iterate 10 decons hl
    have hlen : ∀ n : Nat, ¬ (n + 1 + 1 + 1 + 1 + 1 + 1 + 1 + 1 + 1 + 1 < 10) := by intro n; omega
    simp [-Res.ok_bind, ok_bind', Header.unpackBytes, ub_us_type, ub_us_verify, ub_us_gzip, ub_us_reserve, ub_us_bodyLen, ht, hlen,
      show isUnknown tReq = false by decide, show tReq ≠ tResp by decide, tReq_ne_tResp,
      Bytes.idx, Bytes.slice, Bytes.sliceFrom, remain_req, s_hdrOf, coreHdr, parse0,
      restAbs, stCmd, stRid, stTimeout, stStatus, stMdLen, stLen, Q.u8, Q.u16, Q.u32, b3]
  · rw [ht, remain_req] at hl; simp only at hl
    iterate 12 decons hl
    have hlen : ∀ n : Nat, ¬ (n + 1 + 1 + 1 + 1 + 1 + 1 + 1 + 1 + 1 + 1 + 1 + 1 < 12) := by intro n; omega
    simp [-Res.ok_bind, ok_bind', Header.unpackBytes, ub_us_type, ub_us_verify, ub_us_gzip, ub_us_reserve, ub_us_bodyLen, ht, hlen,
      show isUnknown tReq = false by decide, show tReq ≠ tResp by decide, tReq_ne_tResp,
      Bytes.idx, Bytes.slice, Bytes.sliceFrom, remain_req, s_hdrOf, coreHdr, parse0,
      restAbs, stCmd, stRid, stTimeout, stStatus, stMdLen, stLen, Q.u8, Q.u16, Q.u32, b3]
  · rw [ht, remain_resp] at hl; simp only at hl
    iterate 9 decons hl
    have hlen : ∀ n : Nat, ¬ (n + 1 + 1 + 1 + 1 + 1 + 1 + 1 + 1 + 1 < 9) := by intro n; omega
    simp [-Res.ok_bind, ok_bind', Header.unpackBytes, ub_us_type, ub_us_verify, ub_us_gzip, ub_us_reserve, ub_us_bodyLen, ht, hlen,
      show isUnknown tResp = false by decide, show tResp ≠ tReq by decide, tResp_ne_tReq,
      Bytes.idx, Bytes.slice, Bytes.sliceFrom, remain_resp, s_hdrOf, coreHdr, parse0,
      restAbs, stCmd, stRid, stTimeout, stStatus, stMdLen, stLen, Q.u8, Q.u16, Q.u32, b3]
  · rw [ht, remain_resp] at hl; simp only at hl
    iterate 11 decons hl
    have hlen : ∀ n : Nat, ¬ (n + 1 + 1 + 1 + 1 + 1 + 1 + 1 + 1 + 1 + 1 + 1 < 11) := by intro n; omega
    simp [-Res.ok_bind, ok_bind', Header.unpackBytes, ub_us_type, ub_us_verify, ub_us_gzip, ub_us_reserve, ub_us_bodyLen, ht, hlen,
      show isUnknown tResp = false by decide, show tResp ≠ tReq by decide, tResp_ne_tReq,
      Bytes.idx, Bytes.slice, Bytes.sliceFrom, remain_resp, s_hdrOf, coreHdr, parse0,
      restAbs, stCmd, stRid, stTimeout, stStatus, stMdLen, stLen, Q.u8, Q.u16, Q.u32, b3]
  · rw [ht, remain_push] at hl; simp only at hl
    iterate 4 decons hl
    have hlen : ∀ n : Nat, ¬ (n + 1 + 1 + 1 + 1 < 4) := by intro n; omega
    simp [-Res.ok_bind, ok_bind', Header.unpackBytes, ub_us_type, ub_us_verify, ub_us_gzip, ub_us_reserve, ub_us_bodyLen, ht, hlen,
      show isUnknown tPush = false by decide, show tPush ≠ tReq by decide, show tPush ≠ tResp by decide, tPush_ne_tReq, tPush_ne_tResp,
      Bytes.idx, Bytes.slice, Bytes.sliceFrom, remain_push, s_hdrOf, coreHdr, parse0,
      restAbs, stCmd, stRid, stTimeout, stStatus, stMdLen, stLen, Q.u8, Q.u16, Q.u32, b3]
  · rw [ht, remain_push] at hl; simp only at hl
    iterate 6 decons hl
    have hlen : ∀ n : Nat, ¬ (n + 1 + 1 + 1 + 1 + 1 + 1 < 6) := by intro n; omega
    simp [-Res.ok_bind, ok_bind', Header.unpackBytes, ub_us_type, ub_us_verify, ub_us_gzip, ub_us_reserve, ub_us_bodyLen, ht, hlen,
      show isUnknown tPush = false by decide, show tPush ≠ tReq by decide, show tPush ≠ tResp by decide, tPush_ne_tReq, tPush_ne_tResp,
      Bytes.idx, Bytes.slice, Bytes.sliceFrom, remain_push, s_hdrOf, coreHdr, parse0,
      restAbs, stCmd, stRid, stTimeout, stStatus, stMdLen, stLen, Q.u8, Q.u16, Q.u32, b3]

theorem coreHdr_toPacket (h : Header) (codec : UInt8) : Header.toPacket (coreHdr h) codec = Header.toPacket h codec := rfl

theorem u64_take8 (l : Bytes) (h : 8 ≤ l.length) :
    ∃ a b c d e f g i, l.take 8 = [a, b, c, d, e, f, g, i] ∧ Q.u64 l = rd64 a b c d e f g i := by
  iterate 8 decons h
  exact ⟨_, _, _, _, _, _, _, _, rfl, rfl⟩

/-- a streaming result read as a one-shot result -/
def sresToRes : SRes → Res Packet
  | .pkt k => .ok k
  | .err e => .err e
  | .panic w => .panic w
  | .more => .err "more"

/-- the trailer as the one-shot decoder slices it, on exactly the frame's bytes -/
theorem trailer_slices (data : Bytes) (n : Nat) (hlen : data.length = n + 24) :
    ∃ a b c d e f g i, Bytes.slice data n (n + 8) = .ok [a, b, c, d, e, f, g, i] ∧
      Q.u64 (data.drop n) = rd64 a b c d e f g i ∧
      Bytes.sliceFrom data (n + 8) = .ok (((data.drop n).drop 8).take 16) := by
  obtain ⟨a, b, c, d, e, f, g, i, h1, h2⟩ := u64_take8 (data.drop n) (by rw [List.length_drop]; omega)
  refine ⟨a, b, c, d, e, f, g, i, ?_, h2, ?_⟩
  · rw [Bytes.slice_ok _ _ _ (by omega) (by omega), List.drop_take]
    rw [show n + 8 - n = 8 by omega, h1]
  · rw [Bytes.sliceFrom_ok _ _ (by omega), List.drop_drop, List.take_of_length_le]
    rw [List.length_drop]; omega

theorem unpackBytes_body_v1 (gz : GzOracle) (codec : UInt8) (bs : Bytes) (h : Header) (data : Bytes)
    (hh : Header.unpackBytes .v1 bs = .ok (coreHdr h, data)) (hlen : data.length = needLen .v1 h) :
    unpackBytes .v1 gz codec bs = sresToRes (bodyFull .v1 gz codec h data).1 := by
  have htl : trailerLen = 24 := rfl
  have hbl : (coreHdr h).bodyLength = h.bodyLength := rfl
  have hmd : (coreHdr h).metadataLength = h.metadataLength := rfl
  have hvf : (coreHdr h).verify = h.verify := rfl
  have hgz : (coreHdr h).gzip = h.gzip := rfl
  simp only [needLen] at hlen
  have hs00 : Bytes.slice data 0 0 = .ok [] := by simp [Bytes.slice]
  simp only [s_mdLenOf, Nat.add_zero] at hlen
  have hs0 : Bytes.slice data 0 h.bodyLength.toNat = .ok (data.take h.bodyLength.toNat) := by
    rw [Bytes.slice_ok _ _ _ (by omega) (by split at hlen <;> omega)]; rfl
  by_cases hv : h.verify = 1
  · simp only [hv, beq_self_eq_true, ↓reduceIte, htl] at hlen
    obtain ⟨a, b, c, d, e, f, g, i, t1, t2, t3⟩ := trailer_slices data h.bodyLength.toNat hlen
    have hnl : ¬ data.length < h.bodyLength.toNat := by omega
    have hnl2 : ¬ data.length < h.bodyLength.toNat + trailerLen := by omega
    by_cases hg : h.gzip = 1
    · cases hd : Gzip.decompress gz (data.take h.bodyLength.toNat) <;>
        simp [unpackBytes, hh, ok_bind', hbl, hmd, hvf, hgz, coreHdr_toPacket, bodyFull, withValues, s_mdLenOf,
          hv, hg, hd, hnl, hnl2, hs0, hs00, t1, t2, t3, Gen.v1_NonceLength, sresToRes]
    · simp [unpackBytes, hh, ok_bind', hbl, hmd, hvf, hgz, coreHdr_toPacket, bodyFull, withValues, s_mdLenOf,
          hv, hg, hnl, hnl2, hs0, hs00, t1, t2, t3, Gen.v1_NonceLength, sresToRes]
  · have hv' : (h.verify == 1) = false := by simpa using hv
    simp only [hv', Bool.false_eq_true, ↓reduceIte, Nat.add_zero] at hlen
    have hnl : ¬ data.length < h.bodyLength.toNat := by omega
    by_cases hg : h.gzip = 1
    · cases hd : Gzip.decompress gz (data.take h.bodyLength.toNat) <;>
        simp [unpackBytes, hh, ok_bind', hbl, hmd, hvf, hgz, coreHdr_toPacket, bodyFull, withValues, s_mdLenOf,
          hv, hg, hd, hnl, hs0, hs00, sresToRes]
    · simp [unpackBytes, hh, ok_bind', hbl, hmd, hvf, hgz, coreHdr_toPacket, bodyFull, withValues, s_mdLenOf,
          hv, hg, hnl, hs0, hs00, sresToRes]


theorem unpackBytes_body_v2 (gz : GzOracle) (codec : UInt8) (bs : Bytes) (h : Header) (data : Bytes)
    (hh : Header.unpackBytes .v2 bs = .ok (coreHdr h, data)) (hlen : data.length = needLen .v2 h) :
    unpackBytes .v2 gz codec bs = sresToRes (bodyFull .v2 gz codec h data).1 := by
  have htl : trailerLen = 24 := rfl
  have hbl : (coreHdr h).bodyLength = h.bodyLength := rfl
  have hmd : (coreHdr h).metadataLength = h.metadataLength := rfl
  have hvf : (coreHdr h).verify = h.verify := rfl
  have hgz : (coreHdr h).gzip = h.gzip := rfl
  simp only [needLen] at hlen
  have hs00 : Bytes.slice data 0 0 = .ok [] := by simp [Bytes.slice]
  simp only [s_mdLenOf] at hlen
  have hml : h.metadataLength.toNat ≤ data.length := by omega
  have hs0 : Bytes.slice data 0 h.metadataLength.toNat = .ok (data.take h.metadataLength.toNat) := by
    rw [Bytes.slice_ok _ _ _ (by omega) hml]; rfl
  have hs1 : Bytes.slice data h.metadataLength.toNat (h.bodyLength.toNat + h.metadataLength.toNat)
      = .ok ((data.drop h.metadataLength.toNat).take h.bodyLength.toNat) := by
    rw [Bytes.slice_ok _ _ _ (by omega) (by split at hlen <;> omega), List.drop_take]
    congr 2; omega
  have hnl : ¬ data.length < h.bodyLength.toNat + h.metadataLength.toNat := by omega
  have e : (data.drop h.metadataLength.toNat).drop h.bodyLength.toNat
      = data.drop (h.bodyLength.toNat + h.metadataLength.toNat) := by
    rw [List.drop_drop, Nat.add_comm]
  cases hrp : Metadata.rawPairs (data.take h.metadataLength.toNat) with
  | err e1 =>
    simp [unpackBytes, hh, ok_bind', hbl, hmd, hvf, hgz, coreHdr_toPacket, bodyFull, withValues, s_mdLenOf,
      hnl, hs0, hs1, hrp, sresToRes]
  | panic w =>
    simp [unpackBytes, hh, ok_bind', hbl, hmd, hvf, hgz, coreHdr_toPacket, bodyFull, withValues, s_mdLenOf,
      hnl, hs0, hs1, hrp, sresToRes]
  | ok ps =>
    by_cases hv : h.verify = 1
    · simp only [hv, beq_self_eq_true, ↓reduceIte, htl] at hlen
      obtain ⟨a, b, c, d, e', f, g, i, t1, t2, t3⟩ :=
        trailer_slices data (h.bodyLength.toNat + h.metadataLength.toNat) hlen
      rw [← e] at t2 t3
      simp only [List.drop_drop] at t2
      have hnl2 : ¬ data.length < h.bodyLength.toNat + h.metadataLength.toNat + trailerLen := by omega
      by_cases hg : h.gzip = 1
      · cases hd : Gzip.decompress gz ((data.drop h.metadataLength.toNat).take h.bodyLength.toNat) <;>
          simp [unpackBytes, hh, ok_bind', hbl, hmd, hvf, hgz, coreHdr_toPacket, bodyFull, withValues, s_mdLenOf,
            hv, hg, hd, hnl, hnl2, hs0, hs1, hrp, t1, t2, t3, Gen.v1_NonceLength, sresToRes]
      · simp [unpackBytes, hh, ok_bind', hbl, hmd, hvf, hgz, coreHdr_toPacket, bodyFull, withValues, s_mdLenOf,
            hv, hg, hnl, hnl2, hs0, hs1, hrp, t1, t2, t3, Gen.v1_NonceLength, sresToRes]
    · have hv' : (h.verify == 1) = false := by simpa using hv
      by_cases hg : h.gzip = 1
      · cases hd : Gzip.decompress gz ((data.drop h.metadataLength.toNat).take h.bodyLength.toNat) <;>
          simp [unpackBytes, hh, ok_bind', hbl, hmd, hvf, hgz, coreHdr_toPacket, bodyFull, withValues, s_mdLenOf,
            hv, hg, hd, hnl, hs0, hs1, hrp, sresToRes]
      · simp [unpackBytes, hh, ok_bind', hbl, hmd, hvf, hgz, coreHdr_toPacket, bodyFull, withValues, s_mdLenOf,
            hv, hg, hnl, hs0, hs1, hrp, sresToRes]


/-- the one-shot decoder, given its header phase and exactly the announced bytes after it, returns
what the streaming body phase returns — the packet or the error -/
theorem unpackBytes_body (v : Ver) (gz : GzOracle) (codec : UInt8) (bs : Bytes) (h : Header) (data : Bytes)
    (hh : Header.unpackBytes v bs = .ok (coreHdr h, data)) (hlen : data.length = needLen v h) :
    unpackBytes v gz codec bs = sresToRes (bodyFull v gz codec h data).1 := by
  cases v
  · exact unpackBytes_body_v1 gz codec bs h data hh hlen
  · exact unpackBytes_body_v2 gz codec bs h data hh hlen

/-- SOUNDNESS w.r.t. the one-shot decoder: a packet completed by the streaming decoder from a fresh
context is exactly what `UnpackBytes` returns on exactly the bytes the streaming decoder consumed -/
theorem stream_matches_oneshot_abs (v : Ver) (gz : GzOracle) (codec : UInt8) (u : Bytes) (k : Packet)
    (p' : Option Header) (r : Bytes) (h : unpackAbs v gz codec none u = (.pkt k, p', r)) :
    ∃ n, n ≤ u.length ∧ r = u.drop n ∧ unpackBytes v gz codec (u.take n) = .ok k := by
  obtain ⟨b, t, rfl, hk, hl, hge, hbf, _, hr, hN⟩ := unpack_pkt_consumed v gz codec u k p' r h
  have hpos := s_hdrLen_pos v (usType v b)
  refine ⟨hdrLen v (usType v b) + needLen v (s_hdrOf v b t), hN, hr, ?_⟩
  have hN' : hdrLen v (usType v b) + needLen v (s_hdrOf v b t)
      = (hdrLen v (usType v b) - 1 + needLen v (s_hdrOf v b t)) + 1 := by omega
  rw [hN', List.take_succ_cons]
  rw [List.length_drop] at hge
  have hlt' : hdrLen v (usType v b) - 1 ≤
      (t.take (hdrLen v (usType v b) - 1 + needLen v (s_hdrOf v b t))).length := by
    rw [List.length_take]; omega
  have hhd : s_hdrOf v b (t.take (hdrLen v (usType v b) - 1 + needLen v (s_hdrOf v b t))) = s_hdrOf v b t := by
    unfold s_hdrOf; rw [List.take_take]; congr 3; omega
  have hh := unpackBytes_hdr v b _ hk hlt'
  rw [hhd] at hh
  have hdata : (t.take (hdrLen v (usType v b) - 1 + needLen v (s_hdrOf v b t))).drop (hdrLen v (usType v b) - 1)
      = (t.drop (hdrLen v (usType v b) - 1)).take (needLen v (s_hdrOf v b t)) := by
    rw [List.drop_take]; congr 1; omega
  rw [hdata] at hh
  have hlen : ((t.drop (hdrLen v (usType v b) - 1)).take (needLen v (s_hdrOf v b t))).length
      = needLen v (s_hdrOf v b t) := by
    rw [List.length_take, List.length_drop]; omega
  rw [unpackBytes_body v gz codec _ _ _ hh hlen]
  have happ := bodyFull_append v gz codec (s_hdrOf v b t)
    ((t.drop (hdrLen v (usType v b) - 1)).take (needLen v (s_hdrOf v b t)))
    ((t.drop (hdrLen v (usType v b) - 1)).drop (needLen v (s_hdrOf v b t))) (by rw [hlen]; exact Nat.le_refl _)
  rw [List.take_append_drop, hbf] at happ
  simp only [Prod.mk.injEq] at happ
  rw [← happ.1]; rfl

/-! ### `unread` as a function: the parked header re-encoded by the codec's own `Header.Pack` -/

theorem rd32_be32 (a b c d : UInt8) : be32 (rd32 a b c d) = [a, b, c, d] := by
  have ha : a.toNat < 256 := a.toNat_lt; have hb : b.toNat < 256 := b.toNat_lt
  have hc : c.toNat < 256 := c.toNat_lt; have hd : d.toNat < 256 := d.toNat_lt
  have h := rd32_toNat a b c d
  have e24 : UInt32.toNat 24 % 32 = 24 := by decide
  have e16 : UInt32.toNat 16 % 32 = 16 := by decide
  have e8 : UInt32.toNat 8 % 32 = 8 := by decide
  unfold be32
  congr 1
  · apply UInt8.toNat_inj.mp
    simp only [UInt32.toNat_toUInt8, UInt32.toNat_shiftRight]
    rw [e24, Nat.shiftRight_eq_div_pow, h]; omega
  · congr 1
    · apply UInt8.toNat_inj.mp
      simp only [UInt32.toNat_toUInt8, UInt32.toNat_shiftRight]
      rw [e16, Nat.shiftRight_eq_div_pow, h]; omega
    · congr 1
      · apply UInt8.toNat_inj.mp
        simp only [UInt32.toNat_toUInt8, UInt32.toNat_shiftRight]
        rw [e8, Nat.shiftRight_eq_div_pow, h]; omega
      · congr 1
        apply UInt8.toNat_inj.mp
        simp only [UInt32.toNat_toUInt8]
        rw [h]; omega

theorem rd24_be24 (a b c : UInt8) : be24 (rd24 a b c) = [a, b, c] := by
  have ha : a.toNat < 256 := a.toNat_lt; have hb : b.toNat < 256 := b.toNat_lt
  have hc : c.toNat < 256 := c.toNat_lt
  have h := rd24_toNat a b c
  have e16 : UInt32.toNat 16 % 32 = 16 := by decide
  have e8 : UInt32.toNat 8 % 32 = 8 := by decide
  unfold be24
  congr 1
  · apply UInt8.toNat_inj.mp
    simp only [UInt32.toNat_toUInt8, UInt32.toNat_shiftRight]
    rw [e16, Nat.shiftRight_eq_div_pow, h]; omega
  · congr 1
    · apply UInt8.toNat_inj.mp
      simp only [UInt32.toNat_toUInt8, UInt32.toNat_shiftRight]
      rw [e8, Nat.shiftRight_eq_div_pow, h]; omega
    · congr 1
      apply UInt8.toNat_inj.mp
      simp only [UInt32.toNat_toUInt8]
      rw [h]; omega

theorem s_packB0_tab : ∀ b : Fin 256,
    Gen.v1PackB0 (Gen.v1UsType (UInt8.ofFin b)) (Gen.v1UsVerify (UInt8.ofFin b)) (Gen.v1UsGzip (UInt8.ofFin b))
      (Gen.v1UsReserve (UInt8.ofFin b)) = UInt8.ofFin b := by
  decide +kernel

theorem packB0_us (v : Ver) (b : UInt8) : packB0 v (usType v b) (usVerify v b) (usGzip v b) (usReserve v b) = b := by
  have h0 := s_packB0_tab b.toFin
  have h1 : Gen.v1PackB0 (Gen.v1UsType b) (Gen.v1UsVerify b) (Gen.v1UsGzip b) (Gen.v1UsReserve b) = b := by
    simpa using h0
  cases v <;> exact h1

theorem usBodyLen_rd24 (v : Ver) (a b c : UInt8) : usBodyLen v a b c = rd24 a b c := by cases v <;> rfl
theorem packLen_be24 (v : Ver) (x : UInt32) : packLen v x = be24 x := by cases v <;> rfl


/-- the bytes already taken off the stream into the parked header: the header re-encoded by the
codec's own `Header.Pack` (nothing before byte 0, byte 0 alone until the header is complete) -/
def s_hdrBytes (v : Ver) : Option Header → Bytes
  | none => []
  | some h =>
    if !h.beginUnpack then []
    else if !h.isUnpacked then [packB0 v h.type h.verify h.gzip h.reserve]
    else match Header.pack v h with
      | .ok bs => bs
      | _ => []

/-- the undelivered stream: parked header bytes, then the queue -/
def unread (v : Ver) (pend : Option Header) (q : Bytes) : Bytes := s_hdrBytes v pend ++ q

/-- `Header.Pack` inverts the streaming header decoder on complete headers (all three types, both versions) -/
theorem pack_restAbs (v : Ver) (b : UInt8) (w : Bytes) (hk : isUnknown (usType v b) = false)
    (hw : w.length = hdrLen v (usType v b) - 1) :
    Header.pack v (restAbs v (parse0 v {} b) w).1 = .ok (b :: w) := by
  have hb0 := packB0_us v b
  have hmax : Gen.v1_MaxBodyLength = 16777215 := rfl
  have hlt : ∀ x y z : UInt8, ¬ 16777215 < (rd24 x y z).toNat := fun x y z => by
    have := rd24_lt x y z; omega
  rcases type_cases _ hk with ht | ht | ht <;> cases v
  · rw [ht, remain_req] at hw; simp only at hw
    rw [ht] at hb0
    have hl : 10 ≤ w.length := by omega
    iterate 10 decons hl
    have hnil : ∀ l : Bytes, l.length + 10 = 10 → l = [] := fun l h => List.eq_nil_of_length_eq_zero (by omega)
    simp only [List.length_cons] at hw
    have := hnil _ hw; subst this
    simp [Header.pack, restAbs, stCmd, stRid, stTimeout, stStatus, stMdLen, stLen, parse0, ht, tReq_ne_tResp, show isUnknown tReq = false by decide,
      Q.u8, Q.u16, Q.u32, b3, usBodyLen_rd24, packLen_be24, rd32_be32, rd16_be16, rd24_be24, hmax, hlt, hb0]
  · rw [ht, remain_req] at hw; simp only at hw
    rw [ht] at hb0
    have hl : 12 ≤ w.length := by omega
    iterate 12 decons hl
    have hnil : ∀ l : Bytes, l.length + 12 = 12 → l = [] := fun l h => List.eq_nil_of_length_eq_zero (by omega)
    simp only [List.length_cons] at hw
    have := hnil _ hw; subst this
    simp [Header.pack, restAbs, stCmd, stRid, stTimeout, stStatus, stMdLen, stLen, parse0, ht, tReq_ne_tResp, show isUnknown tReq = false by decide,
      Q.u8, Q.u16, Q.u32, b3, usBodyLen_rd24, packLen_be24, rd32_be32, rd16_be16, rd24_be24, hmax, hlt, hb0]
  · rw [ht, remain_resp] at hw; simp only at hw
    rw [ht] at hb0
    have hl : 9 ≤ w.length := by omega
    iterate 9 decons hl
    have hnil : ∀ l : Bytes, l.length + 9 = 9 → l = [] := fun l h => List.eq_nil_of_length_eq_zero (by omega)
    simp only [List.length_cons] at hw
    have := hnil _ hw; subst this
    simp [Header.pack, restAbs, stCmd, stRid, stTimeout, stStatus, stMdLen, stLen, parse0, ht, tResp_ne_tReq, show isUnknown tResp = false by decide,
      Q.u8, Q.u16, Q.u32, b3, usBodyLen_rd24, packLen_be24, rd32_be32, rd16_be16, rd24_be24, hmax, hlt, hb0]
  · rw [ht, remain_resp] at hw; simp only at hw
    rw [ht] at hb0
    have hl : 11 ≤ w.length := by omega
    iterate 11 decons hl
    have hnil : ∀ l : Bytes, l.length + 11 = 11 → l = [] := fun l h => List.eq_nil_of_length_eq_zero (by omega)
    simp only [List.length_cons] at hw
    have := hnil _ hw; subst this
    simp [Header.pack, restAbs, stCmd, stRid, stTimeout, stStatus, stMdLen, stLen, parse0, ht, tResp_ne_tReq, show isUnknown tResp = false by decide,
      Q.u8, Q.u16, Q.u32, b3, usBodyLen_rd24, packLen_be24, rd32_be32, rd16_be16, rd24_be24, hmax, hlt, hb0]
  · rw [ht, remain_push] at hw; simp only at hw
    rw [ht] at hb0
    have hl : 4 ≤ w.length := by omega
    iterate 4 decons hl
    have hnil : ∀ l : Bytes, l.length + 4 = 4 → l = [] := fun l h => List.eq_nil_of_length_eq_zero (by omega)
    simp only [List.length_cons] at hw
    have := hnil _ hw; subst this
    simp [Header.pack, restAbs, stCmd, stRid, stTimeout, stStatus, stMdLen, stLen, parse0, ht, tPush_ne_tReq, tPush_ne_tResp, show isUnknown tPush = false by decide,
      Q.u8, Q.u16, Q.u32, b3, usBodyLen_rd24, packLen_be24, rd32_be32, rd16_be16, rd24_be24, hmax, hlt, hb0]
  · rw [ht, remain_push] at hw; simp only at hw
    rw [ht] at hb0
    have hl : 6 ≤ w.length := by omega
    iterate 6 decons hl
    have hnil : ∀ l : Bytes, l.length + 6 = 6 → l = [] := fun l h => List.eq_nil_of_length_eq_zero (by omega)
    simp only [List.length_cons] at hw
    have := hnil _ hw; subst this
    simp [Header.pack, restAbs, stCmd, stRid, stTimeout, stStatus, stMdLen, stLen, parse0, ht, tPush_ne_tReq, tPush_ne_tResp, show isUnknown tPush = false by decide,
      Q.u8, Q.u16, Q.u32, b3, usBodyLen_rd24, packLen_be24, rd32_be32, rd16_be16, rd24_be24, hmax, hlt, hb0]

@[simp] theorem stRid_bu (s : Header × Bytes) : (stRid s).1.beginUnpack = s.1.beginUnpack := by unfold stRid; split <;> rfl
@[simp] theorem stTimeout_bu (s : Header × Bytes) : (stTimeout s).1.beginUnpack = s.1.beginUnpack := by unfold stTimeout; split <;> rfl
@[simp] theorem stStatus_bu (s : Header × Bytes) : (stStatus s).1.beginUnpack = s.1.beginUnpack := by unfold stStatus; split <;> rfl
@[simp] theorem stMdLen_bu (v : Ver) (s : Header × Bytes) : (stMdLen v s).1.beginUnpack = s.1.beginUnpack := by cases v <;> rfl

theorem restAbs_beginUnpack (v : Ver) (h : Header) (t : Bytes) : (restAbs v h t).1.beginUnpack = h.beginUnpack := by
  simp [restAbs, stLen, stCmd]

/-- the bytes a parked header stands for are its own re-encoding -/
theorem parked_hdrBytes (v : Ver) (pend : Option Header) (u : Bytes) (hp : Parked v pend u) :
    s_hdrBytes v pend = u := by
  cases hp with
  | fresh => rfl
  | idle => rfl
  | byte0 b hk => simp [s_hdrBytes, parse0, packB0_us]
  | header b w hk hw hn =>
    have hpk := pack_restAbs v b w hk hw
    have hbu : (restAbs v (parse0 v {} b) w).1.beginUnpack = true := by rw [restAbs_beginUnpack]; rfl
    simp only [s_hdrBytes, hbu, restAbs_isUnpacked, Bool.not_true, Bool.false_eq_true, ↓reduceIte, hpk]

theorem parked_iff (v : Ver) (pend : Option Header) : PendOK v pend ↔ Parked v pend (s_hdrBytes v pend) := by
  constructor
  · rintro ⟨u, hu⟩; rw [parked_hdrBytes v pend u hu]; exact hu
  · exact fun h => ⟨_, h⟩

/-- KEY LAW, functional form: a call depends only on `unread` -/
theorem unpack_unread' (v : Ver) (gz : GzOracle) (codec : UInt8) (pend : Option Header) (q : Bytes)
    (hp : PendOK v pend) :
    unpackAbs v gz codec pend q = unpackAbs v gz codec none (unread v pend q) :=
  unpack_unread v gz codec pend _ q ((parked_iff v pend).mp hp)

/-- a "need more data" result leaves `unread` unchanged -/
theorem unpack_more_unread' (v : Ver) (gz : GzOracle) (codec : UInt8) (pend : Option Header) (q : Bytes)
    (hp : PendOK v pend) (hm : (unpackAbs v gz codec pend q).1 = .more) :
    unread v (unpackAbs v gz codec pend q).2.1 (unpackAbs v gz codec pend q).2.2 = unread v pend q := by
  rw [unpack_unread' v gz codec pend q hp] at hm ⊢
  obtain ⟨u', hu', he⟩ := unpack_more_unread v gz codec (unread v pend q) _ _
    (Prod.ext hm (Prod.ext rfl rfl))
  have e := parked_hdrBytes v _ u' hu'
  unfold unread at he e ⊢
  rw [e]; exact he

/-- a reported packet shrinks `unread` by at least a whole header -/
theorem unpack_pkt_unread (v : Ver) (gz : GzOracle) (codec : UInt8) (pend : Option Header) (q : Bytes)
    (hp : PendOK v pend) (k : Packet) (hk : (unpackAbs v gz codec pend q).1 = .pkt k) :
    (unread v (unpackAbs v gz codec pend q).2.1 (unpackAbs v gz codec pend q).2.2).length + pushLen v
      ≤ (unread v pend q).length := by
  have := unpack_pkt_progress v gz codec pend _ q k _ _ ((parked_iff v pend).mp hp)
    (Prod.ext hk (Prod.ext rfl rfl))
  rw [this.2.2]
  simpa [unread, s_hdrBytes] using this.2.1

end Frame
end OAP
