/-
Invariant of the Waiters view and its preservation by every action (one lemma per action,
`grind`-automated), lifted to every reachable state = every interleaving of any number of calls,
dispatchers of any connection, fail-alls and reconnects.
-/
import OAP.Model.Client.Waiters
namespace OAP.Waiters

structure WInv (s : St) : Prop where
  -- a table entry points to a live call of that id and connection
  tab : ∀ r i c, s.recvs r = some (i, c) →
    s.call i = .registered c r ∨ s.call i = .written c r ∨ ∃ res, s.call i = .returning c r res
  -- entries of the current connection carry issued ids (so `start`, which takes a fresh id, never overwrites one)
  tabLt : ∀ r i, s.recvs r = some (i, s.cur) → s.issued r = true
  -- no entry belongs to a future connection
  tabCur : ∀ r i c, s.recvs r = some (i, c) → c ≤ s.cur
  -- what sits in a call's channel was addressed to it and arrived on its connection
  fullR : ∀ i p c r, s.chan i = .full p → s.call i = .registered c r → p.rid = r ∧ p.conn = c
  fullW : ∀ i p c r, s.chan i = .full p → s.call i = .written c r → p.rid = r ∧ p.conn = c
  -- results
  doneOk : ∀ i c r p, s.call i = .done c r (some p) → p.rid = r ∧ p.conn = c
  retOk : ∀ i c r p, s.call i = .returning c r (some p) → p.rid = r ∧ p.conn = c
  idleUnused : ∀ i, s.call i = .idle → s.chan i = .unused
  -- NO LOST WAKE-UP: a call of the current connection that is in flight with an empty slot IS in the table
  regTab : ∀ i r, s.call i = .registered s.cur r → s.chan i = .empty → s.recvs r = some (i, s.cur)
  wrTab : ∀ i r, s.call i = .written s.cur r → s.chan i = .empty → s.recvs r = some (i, s.cur)
  callCur : ∀ i c r, (s.call i = .registered c r ∨ s.call i = .written c r) → c ≤ s.cur
  -- ids of in-flight calls on the current connection are issued ids
  callLt : ∀ i r, (s.call i = .registered s.cur r ∨ s.call i = .written s.cur r) → s.issued r = true
  -- in-flight calls of one connection have distinct ids
  uniq : ∀ i j c r, (s.call i = .registered c r ∨ s.call i = .written c r) →
                    (s.call j = .registered c r ∨ s.call j = .written c r) → s.chan i = .empty → s.chan j = .empty → i = j

theorem inv_init : WInv init := by
  constructor <;> simp [init]

theorem pres_start (s : St) (i k : Nat) (h : WInv s) (hp : s.call i = .idle) (hk : s.issued k = false) :
    WInv { s with issued := upd s.issued k true, recvs := upd s.recvs k (some (i, s.cur)),
                  chan := upd s.chan i .empty, call := upd s.call i (.registered s.cur k) } := by
  obtain ⟨h1, h2, h3, h4, h5, h6, h6b, h7, h8, h9, h10, h11, h12⟩ := h
  constructor <;> simp only [upd, unregister] <;> intros <;> grind

theorem pres_write_ok (s : St) (i : Nat) (h : WInv s) (c r : Nat) (hp : s.call i = .registered c r) :
    WInv { s with call := upd s.call i (.written c r) } := by
  obtain ⟨h1, h2, h3, h4, h5, h6, h6b, h7, h8, h9, h10, h11, h12⟩ := h
  constructor <;> simp only [upd, unregister] <;> intros <;> grind

theorem pres_decide (s : St) (i : Nat) (h : WInv s) (c r : Nat)
    (hp : s.call i = .registered c r ∨ s.call i = .written c r) :
    WInv { s with call := upd s.call i (.returning c r none) } := by
  obtain ⟨h1, h2, h3, h4, h5, h6, h6b, h7, h8, h9, h10, h11, h12⟩ := h
  constructor <;> simp only [upd, unregister] <;> intros <;> grind

theorem pres_take (s : St) (i : Nat) (h : WInv s) (c r : Nat) (p : Pkt)
    (hp : s.call i = .written c r) (hf : s.chan i = .full p) :
    WInv { s with call := upd s.call i (.returning c r (some p)), chan := upd s.chan i .empty } := by
  obtain ⟨h1, h2, h3, h4, h5, h6, h6b, h7, h8, h9, h10, h11, h12⟩ := h
  constructor <;> simp only [upd, unregister] <;> intros <;> grind

theorem pres_finish (s : St) (i : Nat) (h : WInv s) (c r : Nat) (res : Option Pkt)
    (hp : s.call i = .returning c r res) :
    WInv { s with call := upd s.call i (.done c r res), recvs := unregister s i r } := by
  obtain ⟨h1, h2, h3, h4, h5, h6, h6b, h7, h8, h9, h10, h11, h12⟩ := h
  constructor <;> simp only [upd, unregister] <;> intros <;> grind

theorem pres_dispatch (s : St) (i : Nat) (h : WInv s) (p : Pkt) (c : Nat)
    (hr : s.recvs p.rid = some (i, c)) (hc : c = p.conn) (he : s.chan i = .empty) :
    WInv { s with chan := upd s.chan i (.full p) } := by
  obtain ⟨h1, h2, h3, h4, h5, h6, h6b, h7, h8, h9, h10, h11, h12⟩ := h
  constructor <;> simp only [upd, unregister] <;> intros <;> grind

theorem pres_failAll (s : St) (h : WInv s) :
    WInv { s with recvs := fun _ => none, chan := closeRegistered s } := by
  obtain ⟨h1, h2, h3, h4, h5, h6, h6b, h7, h8, h9, h10, h11, h12⟩ := h
  constructor <;> simp only [closeRegistered] <;> intros <;> grind

theorem pres_newConn (s : St) (h : WInv s) : WInv { s with cur := s.cur + 1, issued := fun _ => false } := by
  obtain ⟨h1, h2, h3, h4, h5, h6, h6b, h7, h8, h9, h10, h11, h12⟩ := h
  constructor <;> intros <;> grind

theorem inv_step (s s' : St) (a : Act) (h : WInv s) (hs : step s a = some s') : WInv s' := by
  cases a with
  | start i k =>
    simp only [step] at hs
    split at hs
    · rename_i hp
      split at hs
      · simp at hs
      · rename_i hk
        simp only [Option.some.injEq] at hs; subst hs
        exact pres_start s i k h hp (by simpa using hk)
    · simp at hs
  | write i ok =>
    simp only [step] at hs
    split at hs
    · rename_i c r hp
      split at hs
      · simp only [Option.some.injEq] at hs; subst hs; exact pres_write_ok s i h c r hp
      · simp only [Option.some.injEq] at hs; subst hs
        exact pres_decide s i h c r (Or.inl hp)
    · simp at hs
  | dispatch p =>
    simp only [step] at hs
    split at hs
    · rename_i i c hr
      split at hs
      · rename_i hc
        split at hs
        · rename_i he; simp only [Option.some.injEq] at hs; subst hs; exact pres_dispatch s i h p c hr hc he
        · simp only [Option.some.injEq] at hs; subst hs; exact h
      · simp only [Option.some.injEq] at hs; subst hs; exact h
    · simp only [Option.some.injEq] at hs; subst hs; exact h
  | wake i =>
    simp only [step] at hs
    split at hs
    · rename_i c r hp
      split at hs
      · rename_i p hf; simp only [Option.some.injEq] at hs; subst hs
        exact pres_take s i h c r p hp hf
      · simp only [Option.some.injEq] at hs; subst hs
        exact pres_decide s i h c r (Or.inr hp)
      · simp at hs
    · simp at hs
  | giveUp i =>
    simp only [step] at hs
    split at hs
    · rename_i c r hp; simp only [Option.some.injEq] at hs; subst hs
      exact pres_decide s i h c r (Or.inr hp)
    · simp at hs
  | finish i =>
    simp only [step] at hs
    split at hs
    · rename_i c r res hp; simp only [Option.some.injEq] at hs; subst hs
      exact pres_finish s i h c r res hp
    · simp at hs
  | failAll => simp only [step, Option.some.injEq] at hs; subst hs; exact pres_failAll s h
  | newConn => simp only [step, Option.some.injEq] at hs; subst hs; exact pres_newConn s h

theorem inv_run (acts : List Act) : ∀ s s', WInv s → run s acts = some s' → WInv s' := by
  induction acts with
  | nil => intro s s' h hr; simp [run] at hr; subst hr; exact h
  | cons a as ih =>
    intro s s' h hr
    simp only [run] at hr
    cases hst : step s a with
    | none => simp [hst] at hr
    | some s1 => simp [hst] at hr; exact ih s1 s' (inv_step s s1 a h hst) hr

theorem inv_reachable (s : St) (h : Reachable s) : WInv s := by
  obtain ⟨acts, ha⟩ := h
  exact inv_run acts init s inv_init ha

end OAP.Waiters
