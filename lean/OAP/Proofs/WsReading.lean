/-
C20: the WebSocket reader goroutine (`OAP/Model/Client/WsReading.lean`) against the TCP reader goroutine
(`OAP/Model/Client/Reading.lean`, proved equal to the abstract stream decoder in `OAP/Proofs/Reading.lean`).
Core Lean only.
-/
import OAP.Model.Client.WsReading
import OAP.Model.Client.Reading
import OAP.Proofs.Frame
import OAP.Proofs.Stream
import OAP.Proofs.StreamComplete
import OAP.Proofs.Reading
set_option linter.unusedSimpArgs false
set_option linter.unusedVariables false
namespace OAP.WsReading
open OAP OAP.Frame

/-! ### the loop -/

theorem step_stopped (v : Ver) (gz : GzOracle) (codec : UInt8) (env : Env) (s : WSt) (r : Stop)
    (h : s.stopped = some r) (ev : WsEvent) : step v gz codec env s ev = s := by
  unfold step; rw [h]

theorem foldl_stopped (v : Ver) (gz : GzOracle) (codec : UInt8) (env : Env) (evs : List WsEvent) :
    ∀ (s : WSt) (r : Stop), s.stopped = some r → evs.foldl (step v gz codec env) s = s := by
  induction evs with
  | nil => intro s r _; rfl
  | cons ev evs ih =>
    intro s r h
    rw [List.foldl_cons, step_stopped v gz codec env s r h, ih s r h]

theorem reading_append (v : Ver) (gz : GzOracle) (codec : UInt8) (env : Env) (a b : List WsEvent) :
    reading v gz codec env (a ++ b) = b.foldl (step v gz codec env) (reading v gz codec env a) := by
  unfold reading; rw [List.foldl_append]

/-- once the reader has ended, nothing that arrives later changes what it delivered or why it ended -/
theorem reading_append_stopped (v : Ver) (gz : GzOracle) (codec : UInt8) (env : Env) (a b : List WsEvent) (r : Stop)
    (h : (reading v gz codec env a).stopped = some r) :
    reading v gz codec env (a ++ b) = reading v gz codec env a := by
  rw [reading_append, foldl_stopped v gz codec env b _ r h]

/-! ### text = binary -/

/-- `case websocket.BinaryMessage, websocket.TextMessage:` — one branch -/
theorem step_text (v : Ver) (gz : GzOracle) (codec : UInt8) (env : Env) (s : WSt) (d : Bytes) :
    step v gz codec env s (.text d) = step v gz codec env s (.binary d) := by
  unfold step; cases s.stopped <;> rfl

def asBinary : WsEvent → WsEvent
  | .text d => .binary d
  | e => e

theorem step_asBinary (v : Ver) (gz : GzOracle) (codec : UInt8) (env : Env) (s : WSt) (ev : WsEvent) :
    step v gz codec env s (asBinary ev) = step v gz codec env s ev := by
  cases ev <;> first | rfl | exact (step_text v gz codec env s _).symm

/-- a text message is treated exactly like the binary message with the same payload -/
theorem reading_text_eq_binary (v : Ver) (gz : GzOracle) (codec : UInt8) (env : Env) (evs : List WsEvent) :
    reading v gz codec env (evs.map asBinary) = reading v gz codec env evs := by
  unfold reading
  generalize ({} : WSt) = s
  induction evs generalizing s with
  | nil => rfl
  | cons ev evs ih => rw [List.map_cons, List.foldl_cons, List.foldl_cons, step_asBinary, ih]

/-! ### totality -/

theorem readMessage_stopped (v : Ver) (gz : GzOracle) (codec : UInt8) (s : WSt) (d : Bytes) (hs : s.stopped = none) :
    (∃ p, unpackBytes v gz codec d = .ok p ∧ readMessage v gz codec s d = { s with pkts := s.pkts ++ [p] }) ∨
    (∃ e, unpackBytes v gz codec d = .err e ∧ readMessage v gz codec s d = { s with stopped := some (.decode e) }) := by
  have hnp := unpackBytes_noPanic v gz codec d
  unfold readMessage
  cases h : unpackBytes v gz codec d with
  | ok p => exact .inl ⟨p, rfl, rfl⟩
  | err e => exact .inr ⟨e, rfl, rfl⟩
  | panic w => rw [h] at hnp; cases hnp

theorem readMessage_no_panic (v : Ver) (gz : GzOracle) (codec : UInt8) (s : WSt) (d : Bytes) (hs : s.stopped = none)
    (w : String) : (readMessage v gz codec s d).stopped ≠ some (.panic w) := by
  rcases readMessage_stopped v gz codec s d hs with ⟨p, _, h⟩ | ⟨e, _, h⟩ <;> rw [h] <;> simp [hs]

/-- one item: the only way into a panic is a close frame whose `control.Close` cannot be marshalled -/
theorem step_panic (v : Ver) (gz : GzOracle) (codec : UInt8) (env : Env) (s : WSt) (ev : WsEvent) (w : String)
    (hs : s.stopped = none) (h : (step v gz codec env s ev).stopped = some (.panic w)) :
    ∃ code reason, ev = .close code reason ∧ (env.closeBody code reason = .err w ∨ env.closeBody code reason = .panic w) := by
  unfold step at h
  rw [hs] at h
  cases ev with
  | binary d => exact absurd h (readMessage_no_panic v gz codec s d hs w)
  | text d => exact absurd h (readMessage_no_panic v gz codec s d hs w)
  | ping d =>
    simp only at h
    split at h <;> simp [hs] at h
  | pong d => simp [hs] at h
  | close code reason =>
    refine ⟨code, reason, rfl, ?_⟩
    simp only at h
    cases hc : env.closeBody code reason with
    | ok b => rw [hc] at h; simp at h
    | err e => rw [hc] at h; simp at h; exact .inl (by rw [h])
    | panic w' => rw [hc] at h; simp at h; exact .inr (by rw [h])
  | readError => simp at h

theorem foldl_panic (v : Ver) (gz : GzOracle) (codec : UInt8) (env : Env) (evs : List WsEvent) (w : String) :
    ∀ s : WSt, s.stopped = none → (evs.foldl (step v gz codec env) s).stopped = some (.panic w) →
      ∃ pre code reason post, evs = pre ++ .close code reason :: post ∧
        (pre.foldl (step v gz codec env) s).stopped = none ∧
        (env.closeBody code reason = .err w ∨ env.closeBody code reason = .panic w) := by
  induction evs with
  | nil => intro s hs h; rw [List.foldl_nil, hs] at h; cases h
  | cons ev evs ih =>
    intro s hs h
    rw [List.foldl_cons] at h
    cases hst : (step v gz codec env s ev).stopped with
    | none =>
      obtain ⟨pre, code, reason, post, e1, e2, e3⟩ := ih _ hst h
      exact ⟨ev :: pre, code, reason, post, by rw [e1]; rfl, by rw [List.foldl_cons]; exact e2, e3⟩
    | some r =>
      rw [foldl_stopped v gz codec env evs _ r hst, hst] at h
      injection h with h; subst h
      obtain ⟨code, reason, rfl, hc⟩ := step_panic v gz codec env s ev w hs hst
      exact ⟨[], code, reason, evs, rfl, hs, hc⟩

/-- EXACTLY how the reader goroutine can panic: a close frame arrives while it is still reading and
`MustNewPush` cannot marshal `control.Close` with the context's codec -/
theorem ws_reader_panic_only_from_close (v : Ver) (gz : GzOracle) (codec : UInt8) (env : Env) (evs : List WsEvent) (w : String)
    (h : (reading v gz codec env evs).stopped = some (.panic w)) :
    ∃ pre code reason post, evs = pre ++ .close code reason :: post ∧
      (reading v gz codec env pre).stopped = none ∧
      (env.closeBody code reason = .err w ∨ env.closeBody code reason = .panic w) :=
  foldl_panic v gz codec env evs w {} rfl h

/-- TOTALITY: with a context codec that can marshal `control.Close` (protobuf or JSON) the reader goroutine never
panics — in the decoder, in the handlers, in the packet constructors — whatever arrives, in whatever order -/
theorem ws_reader_total (v : Ver) (gz : GzOracle) (codec : UInt8) (env : Env)
    (hclose : ∀ code reason, ∃ b, env.closeBody code reason = .ok b) (evs : List WsEvent) (w : String) :
    (reading v gz codec env evs).stopped ≠ some (.panic w) := by
  intro h
  obtain ⟨_, code, reason, _, _, _, hc⟩ := ws_reader_panic_only_from_close v gz codec env evs w h
  obtain ⟨b, hb⟩ := hclose code reason
  rw [hb] at hc
  rcases hc with hc | hc <;> cases hc

/-- the same on the verdict as a Go outcome -/
theorem ws_reader_total_verdict (v : Ver) (gz : GzOracle) (codec : UInt8) (env : Env)
    (hclose : ∀ code reason, ∃ b, env.closeBody code reason = .ok b) (evs : List WsEvent) :
    (reading v gz codec env evs).verdict.isPanic = false := by
  have := ws_reader_total v gz codec env hclose evs
  unfold WSt.verdict
  cases hst : (reading v gz codec env evs).stopped with
  | none => rfl
  | some r => cases r <;> first | rfl | exact absurd hst (this _)

/-- … and data messages alone never make it panic, whatever the codec -/
theorem ws_reader_total_data (v : Ver) (gz : GzOracle) (codec : UInt8) (env : Env) (evs : List WsEvent)
    (hno : ∀ code reason, WsEvent.close code reason ∉ evs) (w : String) :
    (reading v gz codec env evs).stopped ≠ some (.panic w) := by
  intro h
  obtain ⟨pre, code, reason, post, he, _, _⟩ := ws_reader_panic_only_from_close v gz codec env evs w h
  exact hno code reason (by rw [he]; simp)

/-! ### data messages -/

/-- a message the one-shot decoder accepts is delivered and the reader goes on -/
theorem step_binary_ok (v : Ver) (gz : GzOracle) (codec : UInt8) (env : Env) (s : WSt) (d : Bytes) (q : Packet)
    (hs : s.stopped = none) (h : unpackBytes v gz codec d = .ok q) :
    step v gz codec env s (.binary d) = { s with pkts := s.pkts ++ [q] } := by
  unfold step readMessage; rw [hs]; simp only [h]

/-- a message the one-shot decoder rejects closes the connection; nothing is delivered for it -/
theorem step_binary_err (v : Ver) (gz : GzOracle) (codec : UInt8) (env : Env) (s : WSt) (d : Bytes) (e : String)
    (hs : s.stopped = none) (h : unpackBytes v gz codec d = .err e) :
    step v gz codec env s (.binary d) = { s with stopped := some (.decode e) } := by
  unfold step readMessage; rw [hs]; simp only [h]

/-- messages that each decode on their own are all delivered, in order, one packet per message -/
theorem foldl_binary_ok (v : Ver) (gz : GzOracle) (codec : UInt8) (env : Env) (ds : List Bytes) (qs : List Packet)
    (h : Forall₂ (fun d q => unpackBytes v gz codec d = .ok q) ds qs) :
    ∀ s : WSt, s.stopped = none →
      (ds.map WsEvent.binary).foldl (step v gz codec env) s = { s with pkts := s.pkts ++ qs } := by
  induction h with
  | nil => intro s _; simp
  | @cons d q ds qs hab _ ih =>
    intro s hs
    rw [List.map_cons, List.foldl_cons, step_binary_ok v gz codec env s _ _ hs hab,
      ih { s with pkts := s.pkts ++ [q] } hs]
    simp [List.append_assoc]

theorem denotes_list (v : Ver) (gz : GzOracle) (codec : UInt8) (fs : List Spec.Frame)
    (hv : ∀ f ∈ fs, ∃ content ps, ValidFrame v gz f content ps) : ∃ qs, Forall₂ (Denotes v gz codec) fs qs := by
  induction fs with
  | nil => exact ⟨[], .nil⟩
  | cons f fs ih =>
    obtain ⟨content, ps, hf⟩ := hv f (by simp)
    obtain ⟨qs, hqs⟩ := ih (fun g hg => hv g (by simp [hg]))
    exact ⟨_, .cons ⟨content, ps, hf, rfl⟩ hqs⟩

/-- THE WS READER DELIVERS EACH FRAME: one valid frame per binary message ↦ the packets the frames denote, in order,
and the reader is still reading -/
theorem ws_reader_delivers_denoted (v : Ver) (gz : GzOracle) (codec : UInt8) (env : Env) (fs : List Spec.Frame)
    (qs : List Packet) (h : Forall₂ (Denotes v gz codec) fs qs) :
    (reading v gz codec env ((fs.map (Spec.encode v)).map .binary)).obs = (qs, none) := by
  have h' : Forall₂ (fun d q => unpackBytes v gz codec d = .ok q) (fs.map (Spec.encode v)) qs :=
    (forall₂_map_left _ _ _ _).mpr (h.imp (fun f q hd => hd.oneshot))
  unfold reading
  rw [foldl_binary_ok v gz codec env _ _ h' {} rfl]
  simp [WSt.obs]

/-- TCP = WS ON FRAMES. For any list of valid frames of the published layout: the WebSocket reader given one frame per
binary message, and the TCP reader given the concatenation of the same frames cut into socket reads in ANY way (from any
well-formed empty left-over ring), hand the SAME packets to `addPacket`, in the same order — the i-th is what the
one-shot decoder returns on the i-th frame — and neither reports an error -/
theorem ws_reader_eq_tcp_on_frames (v : Ver) (gz : GzOracle) (codec : UInt8) (env : Env) (fs : List Spec.Frame)
    (hv : ∀ f ∈ fs, ∃ content ps, ValidFrame v gz f content ps)
    (rb0 : Ring) (wf : rb0.WF) (he : rb0.abs = [])
    (chunks : List Bytes) (hc : chunks.flatten = (fs.map (Spec.encode v)).flatten) :
    (reading v gz codec env ((fs.map (Spec.encode v)).map .binary)).pkts = (Reading.reading v gz codec rb0 chunks).pkts ∧
    (reading v gz codec env ((fs.map (Spec.encode v)).map .binary)).stopped = none ∧
    (Reading.reading v gz codec rb0 chunks).stopped = none ∧
    Forall₂ (fun f q => unpackBytes v gz codec (Spec.encode v f) = .ok q) fs
      (reading v gz codec env ((fs.map (Spec.encode v)).map .binary)).pkts := by
  obtain ⟨qs, hqs⟩ := denotes_list v gz codec fs hv
  have hws := ws_reader_delivers_denoted v gz codec env fs qs hqs
  have htcp : (Reading.reading v gz codec rb0 chunks).obs = (qs, none) := by
    rw [Reading.reading_eq_feed v gz codec rb0 wf he chunks]
    exact feed_frames v gz codec fs qs hqs chunks hc
  simp only [WSt.obs, Prod.mk.injEq] at hws
  simp only [Reading.RSt.obs, Prod.mk.injEq] at htcp
  refine ⟨by rw [hws.1, htcp.1], hws.2, htcp.2, ?_⟩
  rw [hws.1]
  exact hqs.imp (fun f q hd => hd.oneshot)

/-- the same with text and binary messages mixed -/
theorem ws_reader_eq_tcp_on_frames_mixed (v : Ver) (gz : GzOracle) (codec : UInt8) (env : Env) (fs : List Spec.Frame)
    (hv : ∀ f ∈ fs, ∃ content ps, ValidFrame v gz f content ps)
    (msgs : List WsEvent) (hm : msgs.map asBinary = (fs.map (Spec.encode v)).map .binary)
    (rb0 : Ring) (wf : rb0.WF) (he : rb0.abs = [])
    (chunks : List Bytes) (hc : chunks.flatten = (fs.map (Spec.encode v)).flatten) :
    (reading v gz codec env msgs).pkts = (Reading.reading v gz codec rb0 chunks).pkts ∧
    (reading v gz codec env msgs).stopped = none ∧ (Reading.reading v gz codec rb0 chunks).stopped = none := by
  rw [← reading_text_eq_binary, hm]
  obtain ⟨h1, h2, h3, _⟩ := ws_reader_eq_tcp_on_frames v gz codec env fs hv rb0 wf he chunks hc
  exact ⟨h1, h2, h3⟩

/-! ### a message the decoder rejects -/

/-- A BAD MESSAGE CLOSES THE CONNECTION (defect D17 repaired). If the reader is still reading after `pre` and the next
data message is one the one-shot decoder rejects with `e`, then `conn.Close(e)` is called, the goroutine returns, what
was delivered is exactly what was delivered before the message — nothing for the message, nothing for whatever
arrives after it (`post`: data, pings, pongs, a close frame …) -/
theorem ws_reader_bad_message_closes (v : Ver) (gz : GzOracle) (codec : UInt8) (env : Env)
    (pre post : List WsEvent) (d : Bytes) (e : String)
    (hopen : (reading v gz codec env pre).stopped = none) (hbad : unpackBytes v gz codec d = .err e) :
    (reading v gz codec env (pre ++ .binary d :: post)).obs =
      ((reading v gz codec env pre).pkts, some (.decode e)) := by
  have h1 : reading v gz codec env (pre ++ [.binary d]) =
      { reading v gz codec env pre with stopped := some (.decode e) } := by
    rw [reading_append, List.foldl_cons, List.foldl_nil, step_binary_err v gz codec env _ d e hopen hbad]
  have : pre ++ .binary d :: post = (pre ++ [.binary d]) ++ post := by simp
  rw [this, reading_append_stopped v gz codec env _ post (.decode e) (by rw [h1]), h1]
  rfl

/-- "rejects" is the only alternative to "accepts": the decoder returns an error, it does not panic -/
theorem unpackBytes_ok_or_err (v : Ver) (gz : GzOracle) (codec : UInt8) (d : Bytes) :
    (∃ q, unpackBytes v gz codec d = .ok q) ∨ (∃ e, unpackBytes v gz codec d = .err e) := by
  have hnp := unpackBytes_noPanic v gz codec d
  cases h : unpackBytes v gz codec d with
  | ok q => exact .inl ⟨q, rfl⟩
  | err e => exact .inr ⟨e, rfl⟩
  | panic w => rw [h] at hnp; cases hnp

/-- the TCP reader after a run of valid frames followed by ANY bytes `rest`, under any segmentation: the frames'
packets, then whatever the read loop makes of `rest` from a fresh context — its packets and its error verdict -/
theorem tcp_reader_frames_then (v : Ver) (gz : GzOracle) (codec : UInt8) (fs : List Spec.Frame) (qs : List Packet)
    (h : Forall₂ (Denotes v gz codec) fs qs) (rest : Bytes)
    (rb0 : Ring) (wf : rb0.WF) (he : rb0.abs = [])
    (chunks : List Bytes) (hc : chunks.flatten = (fs.map (Spec.encode v)).flatten ++ rest) :
    (Reading.reading v gz codec rb0 chunks).obs =
      (qs ++ (run v gz codec rest).1,
       if (run v gz codec rest).2.1 = .more then none else some (run v gz codec rest).2.1) := by
  rw [Reading.reading_spec v gz codec rb0 wf he chunks, hc, run_frames_append v gz codec fs qs rest h]

/-- the read loop on a stream that starts with an unknown type nibble: no packet, error -/
theorem run_unknown (v : Ver) (gz : GzOracle) (codec : UInt8) (b : UInt8) (t : Bytes)
    (hk : isUnknown (ubType v b) = true) :
    (run v gz codec (b :: t)).1 = [] ∧ (run v gz codec (b :: t)).2.1 = .err "invalid packet type" := by
  rw [ub_us_type] at hk
  rw [run_eq_drain, drain, unpack_fresh_unknown v gz codec b t hk]
  exact ⟨rfl, rfl⟩

/-- the one-shot decoder on the same bytes: the same error -/
theorem unpackBytes_unknown (v : Ver) (gz : GzOracle) (codec : UInt8) (b : UInt8) (t : Bytes)
    (hk : isUnknown (ubType v b) = true) : unpackBytes v gz codec (b :: t) = .err "invalid packet type" := by
  rw [unpackBytes_eq, hdr_unknown v b t hk]; rfl

/-- BOTH READERS CLOSE ON A BAD TYPE NIBBLE, with the same packets before and the same error: valid frames, then a
frame whose type nibble is not request / response / push, then anything -/
theorem both_readers_close_on_unknown_type (v : Ver) (gz : GzOracle) (codec : UInt8) (env : Env) (fs : List Spec.Frame)
    (qs : List Packet) (h : Forall₂ (Denotes v gz codec) fs qs) (b : UInt8) (t : Bytes)
    (hk : isUnknown (ubType v b) = true) (post : List WsEvent)
    (rb0 : Ring) (wf : rb0.WF) (he : rb0.abs = [])
    (chunks : List Bytes) (hc : chunks.flatten = (fs.map (Spec.encode v)).flatten ++ b :: t) :
    (reading v gz codec env ((fs.map (Spec.encode v)).map .binary ++ .binary (b :: t) :: post)).obs =
      (qs, some (.decode "invalid packet type")) ∧
    (Reading.reading v gz codec rb0 chunks).obs = (qs, some (.err "invalid packet type")) := by
  have hws := ws_reader_delivers_denoted v gz codec env fs qs h
  simp only [WSt.obs, Prod.mk.injEq] at hws
  constructor
  · rw [ws_reader_bad_message_closes v gz codec env _ post (b :: t) _ hws.2 (unpackBytes_unknown v gz codec b t hk), hws.1]
  · obtain ⟨r1, r2⟩ := run_unknown v gz codec b t hk
    rw [tcp_reader_frames_then v gz codec fs qs h (b :: t) rb0 wf he chunks hc, r1, r2]
    simp

/-! ### control frames: the synthetic packets are what the TCP decoder yields for the corresponding frames -/

/-- the heartbeat REQUEST frame of the published layout: type 1, command 1, request id `rid`, timeout 0, plain body -/
def hbReqFrame (rid : UInt32) (body : Bytes) : Spec.Frame :=
  { type := 1, verify := 0, gzip := 0, reserve := 0, cmd := 1, rid := rid.toNat, body := body }

/-- the heartbeat RESPONSE frame: type 2, command 1, request id `rid`, status `status`, plain body -/
def hbRespFrame (rid : UInt32) (status : UInt8) (body : Bytes) : Spec.Frame :=
  { type := 2, verify := 0, gzip := 0, reserve := 0, cmd := 1, rid := rid.toNat, status := status.toNat, body := body }

/-- the CLOSE frame: a push (type 3) with command 0 and the marshalled `control.Close` as body -/
def closeFrame (body : Bytes) : Spec.Frame :=
  { type := 3, verify := 0, gzip := 0, reserve := 0, cmd := 0, body := body }

/-- what any decoder of the project returns for `hbRespFrame rid status body` -/
def respPacket (codec : UInt8) (rid : UInt32) (status : UInt8) (body : Bytes) : Packet :=
  { type := .response, cmd := cmdHeartbeat, rid := rid, status := status, codec := codec, body := body }

theorem plain_valid (v : Ver) (gz : GzOracle) (f : Spec.Frame) (ht : f.type = 1 ∨ f.type = 2 ∨ f.type = 3)
    (h1 : f.verify = 0) (h2 : f.gzip = 0) (h3 : f.reserve = 0) (h4 : f.cmd < 256) (h5 : f.rid < 4294967296)
    (h6 : f.timeout < 65536) (h7 : f.status < 256) (h8 : f.nonce = 0) (h9 : f.md = [])
    (hb : f.body.length < 16777216) : ValidFrame v gz f f.body [] :=
  { type := ht, verify := by omega, gzip := by omega, reserve := by omega, cmd := h4, rid := h5, timeout := h6
    status := h7, nonce := by omega, sig := by intro h; omega, body := hb
    md1 := fun _ => ⟨h9, rfl⟩, mdlen := by rw [h9]; decide
    md2 := by intro _; rw [h9]; rfl
    gz1 := by intro h; omega
    gz0 := fun _ => rfl }

theorem hbReq_denotes (v : Ver) (gz : GzOracle) (codec : UInt8) (rid : UInt32) (body : Bytes)
    (hb : body.length < 16777216) : Denotes v gz codec (hbReqFrame rid body) (pingPacket codec rid body) :=
  ⟨body, [], plain_valid v gz (hbReqFrame rid body) (.inl rfl) rfl rfl rfl (by simp [hbReqFrame]) rid.toNat_lt
      (by simp [hbReqFrame]) (by simp [hbReqFrame]) rfl rfl hb,
    by simp [packetOf, hbReqFrame, pingPacket, cmdHeartbeat, WsMap.cmdHeartbeat]⟩

theorem hbResp_denotes (v : Ver) (gz : GzOracle) (codec : UInt8) (rid : UInt32) (status : UInt8) (body : Bytes)
    (hb : body.length < 16777216) : Denotes v gz codec (hbRespFrame rid status body) (respPacket codec rid status body) :=
  ⟨body, [], plain_valid v gz (hbRespFrame rid status body) (.inr (.inl rfl)) rfl rfl rfl (by simp [hbRespFrame]) rid.toNat_lt
      (by simp [hbRespFrame]) status.toNat_lt rfl rfl hb,
    by simp [packetOf, hbRespFrame, respPacket, cmdHeartbeat, WsMap.cmdHeartbeat]⟩

theorem close_denotes (v : Ver) (gz : GzOracle) (codec : UInt8) (body : Bytes)
    (hb : body.length < 16777216) : Denotes v gz codec (closeFrame body) (closePacket codec body) :=
  ⟨body, [], plain_valid v gz (closeFrame body) (.inr (.inr rfl)) rfl rfl rfl (by simp [closeFrame]) (by simp [closeFrame])
      (by simp [closeFrame]) (by simp [closeFrame]) rfl rfl hb,
    by simp [packetOf, closeFrame, closePacket, cmdClose, WsMap.cmdClose]⟩

/-- a pong whose payload carries the id the TCP response frame carries in its header, status 0: the same packet -/
theorem pongPacket_eq_resp (codec : UInt8) (hbId : Bytes → Option UInt32) (body : Bytes) :
    pongPacket codec hbId body = respPacket codec ((hbId body).getD 0) 0 body := rfl

/-! the three handlers, one item each -/

/-- PING ↦ the pong is written back with the same payload, then a heartbeat REQUEST packet is delivered: command 1,
body = the ping payload, codec = the context's, request id = the id DRAWN LOCALLY from `conn.qctx.NextReqId()` -/
theorem step_ping (v : Ver) (gz : GzOracle) (codec : UInt8) (env : Env) (s : WSt) (d : Bytes)
    (hs : s.stopped = none) (hp : env.pongOk s.pings = true) :
    step v gz codec env s (.ping d) =
      { s with pongs := s.pongs ++ [d], pkts := s.pkts ++ [pingPacket codec (env.reqId s.pings) d], pings := s.pings + 1 } := by
  unfold step; rw [hs]; simp only [hp, ↓reduceIte]

/-- … when the pong cannot be written nothing is delivered, no id is drawn, and the reader ends -/
theorem step_ping_fail (v : Ver) (gz : GzOracle) (codec : UInt8) (env : Env) (s : WSt) (d : Bytes)
    (hs : s.stopped = none) (hp : env.pongOk s.pings = false) :
    step v gz codec env s (.ping d) = { s with pings := s.pings + 1, stopped := some .pongWrite } := by
  unfold step; rw [hs]; simp only [hp, Bool.false_eq_true, ↓reduceIte]

/-- PONG ↦ a heartbeat RESPONSE packet: command 1, status 0, body = the pong payload, request id = the heartbeat id
decoded from the payload, 0 when the payload does not decode or carries none -/
theorem step_pong (v : Ver) (gz : GzOracle) (codec : UInt8) (env : Env) (s : WSt) (d : Bytes) (hs : s.stopped = none) :
    step v gz codec env s (.pong d) = { s with pkts := s.pkts ++ [pongPacket codec env.hbId d] } := by
  unfold step; rw [hs]

/-- CLOSE ↦ a close packet (push, command 0, body = `control.Close{code, reason}` marshalled with the context's
codec), then the reader ends with the close error -/
theorem step_close (v : Ver) (gz : GzOracle) (codec : UInt8) (env : Env) (s : WSt) (code : Nat) (reason b : Bytes)
    (hs : s.stopped = none) (hb : env.closeBody code reason = .ok b) :
    step v gz codec env s (.close code reason) =
      { s with pkts := s.pkts ++ [closePacket codec b], stopped := some (.peerClose code reason) } := by
  unfold step; rw [hs]; simp only [hb]

/-- … and PANICS when the body cannot be marshalled -/
theorem step_close_panic (v : Ver) (gz : GzOracle) (codec : UInt8) (env : Env) (s : WSt) (code : Nat) (reason : Bytes)
    (e : String) (hs : s.stopped = none) (hb : env.closeBody code reason = .err e) :
    step v gz codec env s (.close code reason) = { s with stopped := some (.panic e) } := by
  unfold step; rw [hs]; simp only [hb]

/-! ### a peer script on both transports -/

/-- one step of a peer script that both transports can carry -/
inductive Item where
  /-- a request / response / push frame -/
  | data (f : Spec.Frame)
  /-- the peer's heartbeat; `rid` is the request id in the TCP frame header (a ping frame has no place for it) -/
  | hbReq (rid : UInt32) (body : Bytes)
  /-- the peer's answer to a heartbeat of the client; `rid`, `status`: the TCP frame header's (a pong frame has only
  the payload) -/
  | hbResp (rid : UInt32) (status : UInt8) (body : Bytes)

/-- the script over WebSocket: data as one binary message per frame, heartbeats as ping / pong control frames -/
def Item.ws (v : Ver) : Item → WsEvent
  | .data f => .binary (Spec.encode v f)
  | .hbReq _ body => .ping body
  | .hbResp _ _ body => .pong body

/-- the script over TCP: every step is a frame on the byte stream -/
def Item.tcp : Item → Spec.Frame
  | .data f => f
  | .hbReq rid body => hbReqFrame rid body
  | .hbResp rid status body => hbRespFrame rid status body

def Item.Ok (v : Ver) (gz : GzOracle) : Item → Prop
  | .data f => ∃ content ps, ValidFrame v gz f content ps
  | .hbReq _ body => body.length < 16777216       -- gorilla: a control payload has at most 125 bytes
  | .hbResp _ _ body => body.length < 16777216

def pingBodies : List Item → List Bytes
  | [] => []
  | .hbReq _ body :: is => body :: pingBodies is
  | _ :: is => pingBodies is

/-- `Rendered k items W T`: `W` are the packets the WebSocket reader delivers for the script when `k` pings were
handled before it, `T` the packets the TCP frames denote -/
inductive Rendered (v : Ver) (gz : GzOracle) (codec : UInt8) (env : Env) : Nat → List Item → List Packet → List Packet → Prop
  | nil (k : Nat) : Rendered v gz codec env k [] [] []
  | data {k : Nat} {f : Spec.Frame} {q : Packet} {is : List Item} {W T : List Packet} :
      Denotes v gz codec f q → Rendered v gz codec env k is W T → Rendered v gz codec env k (.data f :: is) (q :: W) (q :: T)
  | hbReq {k : Nat} {rid : UInt32} {body : Bytes} {is : List Item} {W T : List Packet} :
      body.length < 16777216 → Rendered v gz codec env (k + 1) is W T →
      Rendered v gz codec env k (.hbReq rid body :: is) (pingPacket codec (env.reqId k) body :: W) (pingPacket codec rid body :: T)
  | hbResp {k : Nat} {rid : UInt32} {status : UInt8} {body : Bytes} {is : List Item} {W T : List Packet} :
      body.length < 16777216 → Rendered v gz codec env k is W T →
      Rendered v gz codec env k (.hbResp rid status body :: is) (pongPacket codec env.hbId body :: W)
        (respPacket codec rid status body :: T)

theorem rendered_exists (v : Ver) (gz : GzOracle) (codec : UInt8) (env : Env) (items : List Item)
    (hok : ∀ i ∈ items, i.Ok v gz) : ∀ k, ∃ W T, Rendered v gz codec env k items W T := by
  induction items with
  | nil => intro k; exact ⟨[], [], .nil k⟩
  | cons i is ih =>
    intro k
    have hi := hok i (by simp)
    have ih' := ih (fun j hj => hok j (by simp [hj]))
    cases i with
    | data f =>
      obtain ⟨content, ps, hv⟩ := hi
      obtain ⟨W, T, h⟩ := ih' k
      exact ⟨_, _, .data ⟨content, ps, hv, rfl⟩ h⟩
    | hbReq rid body =>
      obtain ⟨W, T, h⟩ := ih' (k + 1)
      exact ⟨_, _, .hbReq hi h⟩
    | hbResp rid status body =>
      obtain ⟨W, T, h⟩ := ih' k
      exact ⟨_, _, .hbResp hi h⟩

/-- the WebSocket reader on the script -/
theorem rendered_ws (v : Ver) (gz : GzOracle) (codec : UInt8) (env : Env) (hpong : ∀ k, env.pongOk k = true)
    {k : Nat} {items : List Item} {W T : List Packet} (h : Rendered v gz codec env k items W T) :
    ∀ s : WSt, s.stopped = none → s.pings = k →
      ((items.map (Item.ws v)).foldl (step v gz codec env) s).pkts = s.pkts ++ W ∧
      ((items.map (Item.ws v)).foldl (step v gz codec env) s).pongs = s.pongs ++ pingBodies items ∧
      ((items.map (Item.ws v)).foldl (step v gz codec env) s).stopped = none := by
  induction h with
  | nil k => intro s hs _; simp [pingBodies, hs]
  | @data k f q is W T hd _ ih =>
    intro s hs hk
    rw [List.map_cons, List.foldl_cons, Item.ws, step_binary_ok v gz codec env s _ q hs hd.oneshot]
    obtain ⟨h1, h2, h3⟩ := ih { s with pkts := s.pkts ++ [q] } hs hk
    exact ⟨by rw [h1]; simp, by rw [h2]; rfl, h3⟩
  | @hbReq k rid body is W T hb _ ih =>
    intro s hs hk
    rw [List.map_cons, List.foldl_cons, Item.ws, step_ping v gz codec env s body hs (hpong _)]
    obtain ⟨h1, h2, h3⟩ := ih { s with pongs := s.pongs ++ [body], pkts := s.pkts ++ [pingPacket codec (env.reqId s.pings) body],
                                          pings := s.pings + 1 } hs (by simp [hk])
    exact ⟨by rw [h1, hk]; simp, by rw [h2]; simp [pingBodies], h3⟩
  | @hbResp k rid status body is W T hb _ ih =>
    intro s hs hk
    rw [List.map_cons, List.foldl_cons, Item.ws, step_pong v gz codec env s body hs]
    obtain ⟨h1, h2, h3⟩ := ih { s with pkts := s.pkts ++ [pongPacket codec env.hbId body] } hs hk
    exact ⟨by rw [h1]; simp, by rw [h2]; rfl, h3⟩

/-- the TCP frames of the script denote `T` -/
theorem rendered_tcp (v : Ver) (gz : GzOracle) (codec : UInt8) (env : Env)
    {k : Nat} {items : List Item} {W T : List Packet} (h : Rendered v gz codec env k items W T) :
    Forall₂ (Denotes v gz codec) (items.map Item.tcp) T := by
  induction h with
  | nil k => exact .nil
  | data hd _ ih => exact .cons hd ih
  | hbReq hb _ ih => exact .cons (hbReq_denotes v gz codec _ _ hb) ih
  | hbResp hb _ ih => exact .cons (hbResp_denotes v gz codec _ _ _ hb) ih

/-- how a packet delivered over WebSocket (`w`) relates to the packet delivered over TCP (`t`) for the same step of the
script: identical, or a heartbeat request that differs in the request id only, or a heartbeat response whose request id
and status come from the payload / are 0 instead of from the frame header — every other field (type, command, codec,
body, timeout, verify, gzip, nonce, signature, metadata values) is the same -/
def SamePacket (hbId : Bytes → Option UInt32) (w t : Packet) : Prop :=
  w = t ∨
  (t.type = .request ∧ t.cmd = cmdHeartbeat ∧ w = { t with rid := w.rid }) ∨
  (t.type = .response ∧ t.cmd = cmdHeartbeat ∧ w = { t with rid := (hbId t.body).getD 0, status := 0 })

theorem rendered_same (v : Ver) (gz : GzOracle) (codec : UInt8) (env : Env)
    {k : Nat} {items : List Item} {W T : List Packet} (h : Rendered v gz codec env k items W T) :
    Forall₂ (SamePacket env.hbId) W T := by
  induction h with
  | nil k => exact .nil
  | data hd _ ih => exact .cons (.inl rfl) ih
  | hbReq hb _ ih => exact .cons (.inr (.inl ⟨rfl, rfl, rfl⟩)) ih
  | hbResp hb _ ih => exact .cons (.inr (.inr ⟨rfl, rfl, rfl⟩)) ih

/-- a script is GENUINE when every heartbeat answer has status 0 and carries in its body the id that the TCP frame
carries in its header (what a peer echoing the client's heartbeat sends) and there are no peer heartbeats -/
def Item.Genuine (hbId : Bytes → Option UInt32) : Item → Prop
  | .data _ => True
  | .hbReq _ _ => False
  | .hbResp rid status body => status = 0 ∧ hbId body = some rid

theorem rendered_genuine (v : Ver) (gz : GzOracle) (codec : UInt8) (env : Env)
    {k : Nat} {items : List Item} {W T : List Packet} (h : Rendered v gz codec env k items W T)
    (hg : ∀ i ∈ items, i.Genuine env.hbId) : W = T := by
  induction h with
  | nil k => rfl
  | data hd _ ih => rw [ih (fun j hj => hg j (by simp [hj]))]
  | @hbReq k rid body is W T hb _ ih => exact (hg (.hbReq rid body) (by simp)).elim
  | @hbResp k rid status body is W T hb _ ih =>
    obtain ⟨h1, h2⟩ : status = 0 ∧ env.hbId body = some rid := hg (.hbResp rid status body) (by simp)
    rw [ih (fun j hj => hg j (by simp [hj])), pongPacket_eq_resp, h1, h2]
    rfl

/-- the WebSocket reader on a genuine script (no ping in it: `pongOk` is never consulted) -/
theorem rendered_ws_genuine (v : Ver) (gz : GzOracle) (codec : UInt8) (env : Env)
    {k : Nat} {items : List Item} {W T : List Packet} (h : Rendered v gz codec env k items W T)
    (hg : ∀ i ∈ items, i.Genuine env.hbId) :
    ∀ s : WSt, s.stopped = none →
      ((items.map (Item.ws v)).foldl (step v gz codec env) s).pkts = s.pkts ++ W ∧
      ((items.map (Item.ws v)).foldl (step v gz codec env) s).stopped = none := by
  induction h with
  | nil k => intro s hs; simp [hs]
  | @data k f q is W T hd _ ih =>
    intro s hs
    rw [List.map_cons, List.foldl_cons, Item.ws, step_binary_ok v gz codec env s _ q hs hd.oneshot]
    obtain ⟨h1, h3⟩ := ih (fun j hj => hg j (by simp [hj])) { s with pkts := s.pkts ++ [q] } hs
    exact ⟨by rw [h1]; simp, h3⟩
  | @hbReq k rid body is W T hb _ ih => exact (hg (.hbReq rid body) (by simp)).elim
  | @hbResp k rid status body is W T hb _ ih =>
    intro s hs
    rw [List.map_cons, List.foldl_cons, Item.ws, step_pong v gz codec env s body hs]
    obtain ⟨h1, h3⟩ := ih (fun j hj => hg j (by simp [hj]))
      { s with pkts := s.pkts ++ [pongPacket codec env.hbId body] } hs
    exact ⟨by rw [h1]; simp, h3⟩

theorem forall₂_snoc {α β : Type} {R : α → β → Prop} {as : List α} {bs : List β} {a : α} {b : β}
    (h : Forall₂ R as bs) (hab : R a b) : Forall₂ R (as ++ [a]) (bs ++ [b]) := by
  induction h with
  | nil => exact .cons hab .nil
  | cons h1 _ ih => exact .cons h1 ih

/-- THE CONTROL MAPPING AT READER LEVEL. A peer script — data frames, peer heartbeats, answers to the client's
heartbeats, in any order — sent over WebSocket (binary messages, ping and pong control frames) and over TCP (frames on
the byte stream, cut into socket reads in ANY way): both readers stay open, deliver the same NUMBER of packets in the
same order, and the i-th packets are `SamePacket`: equal, except that
* for a peer heartbeat the request id over WebSocket is drawn locally (`reqId`), over TCP it is the peer's;
* for a heartbeat answer the request id over WebSocket is the heartbeat id found in the payload (0 if none) and the
  status is 0, over TCP both are the frame header's.
The pongs written back are the ping payloads, in order. -/
theorem ws_script_eq_tcp (v : Ver) (gz : GzOracle) (codec : UInt8) (env : Env) (hpong : ∀ k, env.pongOk k = true)
    (items : List Item) (hok : ∀ i ∈ items, i.Ok v gz)
    (rb0 : Ring) (wf : rb0.WF) (he : rb0.abs = [])
    (chunks : List Bytes) (hc : chunks.flatten = ((items.map Item.tcp).map (Spec.encode v)).flatten) :
    Forall₂ (SamePacket env.hbId) (reading v gz codec env (items.map (Item.ws v))).pkts
      (Reading.reading v gz codec rb0 chunks).pkts ∧
    (reading v gz codec env (items.map (Item.ws v))).stopped = none ∧
    (Reading.reading v gz codec rb0 chunks).stopped = none ∧
    (reading v gz codec env (items.map (Item.ws v))).pongs = pingBodies items := by
  obtain ⟨W, T, hr⟩ := rendered_exists v gz codec env items hok 0
  obtain ⟨h1, h2, h3⟩ := rendered_ws v gz codec env hpong hr {} rfl rfl
  have htcp : (Reading.reading v gz codec rb0 chunks).obs = (T, none) := by
    rw [Reading.reading_eq_feed v gz codec rb0 wf he chunks]
    exact feed_frames v gz codec _ T (rendered_tcp v gz codec env hr) chunks hc
  simp only [Reading.RSt.obs, Prod.mk.injEq] at htcp
  unfold reading
  rw [h1, h2, htcp.1]
  exact ⟨by simpa using rendered_same v gz codec env hr, h3, htcp.2, by simp⟩

/-- … and for a GENUINE script (no peer heartbeats; every heartbeat answer has status 0 and its body carries the id of
its frame header) the delivered packet lists are EQUAL -/
theorem ws_script_eq_tcp_genuine (v : Ver) (gz : GzOracle) (codec : UInt8) (env : Env)
    (items : List Item) (hok : ∀ i ∈ items, i.Ok v gz) (hg : ∀ i ∈ items, i.Genuine env.hbId)
    (rb0 : Ring) (wf : rb0.WF) (he : rb0.abs = [])
    (chunks : List Bytes) (hc : chunks.flatten = ((items.map Item.tcp).map (Spec.encode v)).flatten) :
    (reading v gz codec env (items.map (Item.ws v))).obs = ((Reading.reading v gz codec rb0 chunks).pkts, none) ∧
    (Reading.reading v gz codec rb0 chunks).stopped = none := by
  obtain ⟨W, T, hr⟩ := rendered_exists v gz codec env items hok 0
  have hWT := rendered_genuine v gz codec env hr hg
  have htcp : (Reading.reading v gz codec rb0 chunks).obs = (T, none) := by
    rw [Reading.reading_eq_feed v gz codec rb0 wf he chunks]
    exact feed_frames v gz codec _ T (rendered_tcp v gz codec env hr) chunks hc
  simp only [Reading.RSt.obs, Prod.mk.injEq] at htcp
  obtain ⟨h1, h3⟩ := rendered_ws_genuine v gz codec env hr hg {} rfl
  unfold reading WSt.obs
  rw [h1, h3, htcp.1, hWT]
  exact ⟨by simp, htcp.2⟩

/-- CLOSE AT READER LEVEL. After a script that left both readers open, the peer closes: over WebSocket with a close
control frame (code, reason), over TCP with the close FRAME whose body is the same `control.Close` marshalled with the
same codec. Both readers deliver one more packet, THE SAME close packet. The WebSocket reader then ends with the close
error at once; the TCP reader is still reading (it ends when the client, handling the close packet, closes the conn). -/
theorem ws_close_eq_tcp (v : Ver) (gz : GzOracle) (codec : UInt8) (env : Env) (hpong : ∀ k, env.pongOk k = true)
    (items : List Item) (hok : ∀ i ∈ items, i.Ok v gz) (code : Nat) (reason b : Bytes)
    (hb : env.closeBody code reason = .ok b) (hbl : b.length < 16777216) (post : List WsEvent)
    (rb0 : Ring) (wf : rb0.WF) (he : rb0.abs = [])
    (chunks : List Bytes)
    (hc : chunks.flatten = (((items.map Item.tcp) ++ [closeFrame b]).map (Spec.encode v)).flatten) :
    ∃ W T, Forall₂ (SamePacket env.hbId) W T ∧
      (reading v gz codec env (items.map (Item.ws v) ++ .close code reason :: post)).obs =
        (W ++ [closePacket codec b], some (.peerClose code reason)) ∧
      (Reading.reading v gz codec rb0 chunks).obs = (T ++ [closePacket codec b], none) := by
  obtain ⟨W, T, hr⟩ := rendered_exists v gz codec env items hok 0
  obtain ⟨h1, h2, h3⟩ := rendered_ws v gz codec env hpong hr {} rfl rfl
  have h1' : (reading v gz codec env (items.map (Item.ws v))).pkts = W := by
    unfold reading; simpa using h1
  have h3' : (reading v gz codec env (items.map (Item.ws v))).stopped = none := h3
  refine ⟨W, T, rendered_same v gz codec env hr, ?_, ?_⟩
  · have e1 : reading v gz codec env (items.map (Item.ws v) ++ [.close code reason]) =
        { reading v gz codec env (items.map (Item.ws v)) with
            pkts := (reading v gz codec env (items.map (Item.ws v))).pkts ++ [closePacket codec b],
            stopped := some (.peerClose code reason) } := by
      rw [reading_append, List.foldl_cons, List.foldl_nil, step_close v gz codec env _ code reason b h3' hb]
    have : items.map (Item.ws v) ++ .close code reason :: post = (items.map (Item.ws v) ++ [.close code reason]) ++ post := by simp
    rw [this, reading_append_stopped v gz codec env _ post (.peerClose code reason) (by rw [e1]), e1]
    simp only [WSt.obs, h1']
  · rw [Reading.reading_eq_feed v gz codec rb0 wf he chunks]
    have hd : Forall₂ (Denotes v gz codec) ((items.map Item.tcp) ++ [closeFrame b]) (T ++ [closePacket codec b]) :=
      forall₂_snoc (rendered_tcp v gz codec env hr) (close_denotes v gz codec b hbl)
    exact feed_frames v gz codec _ _ hd chunks hc

/-! ### where the two readers differ: one message = one decode -/

/-- THE ONE-SHOT DECODER ON A FRAME FOLLOWED BY MORE BYTES. For a valid frame of the layout followed by ANY bytes `rest`
(a second frame, a partial frame, garbage) `UnpackBytes` succeeds and returns the frame's packet; `rest` is not looked
at — except when the verify bit is set: then the signature is `data[idx+8:]`, i.e. the 16 signature bytes AND `rest` -/
theorem unpackBytes_trailing (v : Ver) (gz : GzOracle) (codec : UInt8) (f : Spec.Frame) (content : Bytes)
    (ps : List Metadata.Pair) (hv : ValidFrame v gz f content ps) (rest : Bytes) :
    unpackBytes v gz codec (Spec.encode v f ++ rest) =
      .ok { packetOf f codec content ps with signature := if f.verify = 1 then f.sig ++ rest else [] } := by
  obtain ⟨hbl, hml, hver, hgz⟩ := hdrOf_facts v gz f content ps hv
  rw [unpackBytes_eq, encode_split, List.append_assoc, hdr_unpack_spec v gz f content ps hv]
  simp only [Res.ok_bind]
  rw [unpackBody_long _ _ _ _ _ (by rw [hbl, hml]; simp only [List.length_append]; omega)]
  rw [hbl, hml]
  have t1 : (mdOf v f ++ f.body ++ trailerOf f ++ rest).take (mdOf v f).length = mdOf v f := by
    simp [List.append_assoc, List.take_append]
  have t2 : ((mdOf v f ++ f.body ++ trailerOf f ++ rest).take (f.body.length + (mdOf v f).length)).drop (mdOf v f).length
      = f.body := by
    have : f.body.length + (mdOf v f).length = (mdOf v f ++ f.body).length := by simp; omega
    rw [this, List.append_assoc (mdOf v f ++ f.body), List.take_left']
    · simp
    · rfl
  rw [t1, t2, toPacket_hdrOf v gz f content ps hv, mdStage_spec v gz f content ps hv _ rfl]
  simp only [Res.ok_bind]
  have hlen : f.body.length + (mdOf v f).length = (mdOf v f ++ f.body).length := by simp; omega
  rw [hlen]
  by_cases h1 : f.verify = 1
  · have hs := hv.sig h1
    have htr : mdOf v f ++ f.body ++ trailerOf f ++ rest =
        (mdOf v f ++ f.body) ++ (UInt8.ofNat (f.nonce / 72057594037927936 % 256) :: UInt8.ofNat (f.nonce / 281474976710656 % 256) ::
          UInt8.ofNat (f.nonce / 1099511627776 % 256) :: UInt8.ofNat (f.nonce / 4294967296 % 256) ::
          UInt8.ofNat (f.nonce / 16777216 % 256) :: UInt8.ofNat (f.nonce / 65536 % 256) ::
          UInt8.ofNat (f.nonce / 256 % 256) :: UInt8.ofNat (f.nonce % 256) :: (f.sig ++ rest)) := by
      simp [trailerOf, h1, be8_eq, List.append_assoc]
    rw [htr, verifyStage_ok _ _ _ _ _ _ _ _ _ _ _ _ (by rw [hver]; simp [h1]) (by simp; omega), rd64_ofNat _ hv.nonce]
    simp only [Res.ok_bind]
    rw [gzStage_spec v gz f content ps hv _ rfl]
    simp [packetOf, h1]
  · rw [verifyStage_off _ _ _ _ (by rw [hver]; simp [h1])]
    simp only [Res.ok_bind]
    rw [gzStage_spec v gz f content ps hv _ rfl]
    simp [packetOf, h1]

/-- (1) TRAILING BYTES / TWO FRAMES IN ONE MESSAGE. One binary message holding a valid frame (verify bit clear)
followed by ANY bytes `rest`: the WebSocket reader delivers the frame's packet, drops `rest` silently and goes on
reading. The TCP reader, given the same bytes, treats `rest` as the continuation of the stream: it delivers the frame's
packet, then whatever the read loop makes of `rest` — further packets, a wait for more data, or an error that closes
the connection. -/
theorem trailing_bytes_ws_vs_tcp (v : Ver) (gz : GzOracle) (codec : UInt8) (env : Env) (f : Spec.Frame) (content : Bytes)
    (ps : List Metadata.Pair) (hv : ValidFrame v gz f content ps) (h0 : f.verify ≠ 1) (rest : Bytes)
    (rb0 : Ring) (wf : rb0.WF) (he : rb0.abs = [])
    (chunks : List Bytes) (hc : chunks.flatten = Spec.encode v f ++ rest) :
    (reading v gz codec env [.binary (Spec.encode v f ++ rest)]).obs = ([packetOf f codec content ps], none) ∧
    (Reading.reading v gz codec rb0 chunks).obs =
      (packetOf f codec content ps :: (run v gz codec rest).1,
       if (run v gz codec rest).2.1 = .more then none else some (run v gz codec rest).2.1) := by
  constructor
  · have hu := unpackBytes_trailing v gz codec f content ps hv rest
    have hq : ({ packetOf f codec content ps with signature := if f.verify = 1 then f.sig ++ rest else [] } : Packet) =
        packetOf f codec content ps := by simp [packetOf, h0]
    rw [hq] at hu
    unfold reading
    rw [List.foldl_cons, List.foldl_nil, step_binary_ok v gz codec env {} _ _ rfl hu]
    rfl
  · have := tcp_reader_frames_then v gz codec [f] [packetOf f codec content ps]
      (.cons ⟨content, ps, hv, rfl⟩ .nil) rest rb0 wf he chunks (by simpa using hc)
    simpa using this

/-- … in particular two valid frames in ONE message: WebSocket delivers the first only, TCP both -/
theorem two_frames_one_message (v : Ver) (gz : GzOracle) (codec : UInt8) (env : Env) (f g : Spec.Frame)
    (cf cg : Bytes) (pf pg : List Metadata.Pair) (hf : ValidFrame v gz f cf pf) (hg : ValidFrame v gz g cg pg)
    (h0 : f.verify ≠ 1) (rb0 : Ring) (wf : rb0.WF) (he : rb0.abs = [])
    (chunks : List Bytes) (hc : chunks.flatten = Spec.encode v f ++ Spec.encode v g) :
    (reading v gz codec env [.binary (Spec.encode v f ++ Spec.encode v g)]).obs = ([packetOf f codec cf pf], none) ∧
    (Reading.reading v gz codec rb0 chunks).obs = ([packetOf f codec cf pf, packetOf g codec cg pg], none) := by
  refine ⟨(trailing_bytes_ws_vs_tcp v gz codec env f cf pf hf h0 _ rb0 wf he chunks hc).1, ?_⟩
  rw [Reading.reading_eq_feed v gz codec rb0 wf he chunks]
  exact feed_frames v gz codec [f, g] _ (.cons ⟨cf, pf, hf, rfl⟩ (.cons ⟨cg, pg, hg, rfl⟩ .nil)) chunks (by simpa using hc)

/-- (2) with the verify bit set the bytes after the frame end up IN the packet: the signature the WebSocket reader
delivers is the 16 signature bytes followed by `rest`; the TCP reader delivers the 16 bytes -/
theorem trailing_bytes_into_signature (v : Ver) (gz : GzOracle) (codec : UInt8) (env : Env) (f : Spec.Frame) (content : Bytes)
    (ps : List Metadata.Pair) (hv : ValidFrame v gz f content ps) (h1 : f.verify = 1) (rest : Bytes) :
    (reading v gz codec env [.binary (Spec.encode v f ++ rest)]).obs =
      ([{ packetOf f codec content ps with signature := f.sig ++ rest }], none) := by
  have hu := unpackBytes_trailing v gz codec f content ps hv rest
  simp only [h1, ↓reduceIte] at hu
  unfold reading
  rw [List.foldl_cons, List.foldl_nil, step_binary_ok v gz codec env {} _ _ rfl hu]
  rfl

/-- (3) A FRAME SPLIT ACROSS TWO MESSAGES (or an empty message: `k = 0`). The first message is a strict prefix of a valid
frame: the one-shot decoder rejects it, the WebSocket reader closes the connection and delivers nothing — neither then
nor for the second message. The TCP reader, given the same two pieces as two socket reads, delivers the packet. -/
theorem split_frame_ws_vs_tcp (v : Ver) (gz : GzOracle) (codec : UInt8) (env : Env) (f : Spec.Frame) (content : Bytes)
    (ps : List Metadata.Pair) (hv : ValidFrame v gz f content ps) (k : Nat) (hk : k < (Spec.encode v f).length)
    (rb0 : Ring) (wf : rb0.WF) (he : rb0.abs = []) :
    (∃ e, (reading v gz codec env [.binary ((Spec.encode v f).take k), .binary ((Spec.encode v f).drop k)]).obs =
      ([], some (.decode e))) ∧
    (Reading.reading v gz codec rb0 [(Spec.encode v f).take k, (Spec.encode v f).drop k]).obs =
      ([packetOf f codec content ps], none) := by
  constructor
  · obtain ⟨e, he'⟩ := unpackBytes_prefix v gz codec f content ps hv k hk
    exact ⟨e, ws_reader_bad_message_closes v gz codec env [] _ _ e rfl he'⟩
  · rw [Reading.reading_eq_feed v gz codec rb0 wf he]
    exact feed_frames v gz codec [f] _ (.cons ⟨content, ps, hv, rfl⟩ .nil) _ (by simp)

/-- (4) AN EMPTY MESSAGE closes the WebSocket connection ("invalid frame"); an empty socket read is skipped on TCP -/
theorem empty_message_ws_vs_tcp (v : Ver) (gz : GzOracle) (codec : UInt8) (env : Env) (pre post : List WsEvent)
    (hopen : (reading v gz codec env pre).stopped = none)
    (rb0 : Ring) (wf : rb0.WF) (he : rb0.abs = []) (c1 c2 : List Bytes) :
    (reading v gz codec env (pre ++ .binary [] :: post)).obs =
      ((reading v gz codec env pre).pkts, some (.decode "invalid frame")) ∧
    (Reading.reading v gz codec rb0 (c1 ++ [] :: c2)).obs = (Reading.reading v gz codec rb0 (c1 ++ c2)).obs := by
  constructor
  · exact ws_reader_bad_message_closes v gz codec env pre post [] _ hopen (by rw [unpackBytes_eq, hdr_nil]; rfl)
  · rw [Reading.reading_spec v gz codec rb0 wf he, Reading.reading_spec v gz codec rb0 wf he]
    simp

end OAP.WsReading
