/-
Base definitions shared by every model: byte strings, outcomes (ok | err | panic),
big-endian field encodings and their round-trip lemmas (kernel-only proofs).
Core Lean only: no Mathlib import, so that the driver links as an executable.
-/
namespace OAP

abbrev Bytes := List UInt8

/-- Outcome of a Go function: a value, a returned error, or a run-time panic
(index out of range, slice bounds, nil dereference, close of closed channel …). -/
inductive Res (α : Type) where
  | ok (a : α)
  | err (e : String)
  | panic (why : String)
  deriving Repr, DecidableEq

namespace Res
def isOk {α} : Res α → Bool | .ok _ => true | _ => false
def isErr {α} : Res α → Bool | .err _ => true | _ => false
def isPanic {α} : Res α → Bool | .panic _ => true | _ => false
def map {α β} (f : α → β) : Res α → Res β
  | .ok a => .ok (f a) | .err e => .err e | .panic w => .panic w
def bind {α β} (r : Res α) (f : α → Res β) : Res β :=
  match r with | .ok a => f a | .err e => .err e | .panic w => .panic w
instance : Monad Res where
  pure := Res.ok
  bind := Res.bind
def toOption {α} : Res α → Option α | .ok a => some a | _ => none
end Res

@[simp] theorem Res.ok_bind {α β} (a : α) (f : α → Res β) : (Res.ok a >>= f) = f a := rfl
@[simp] theorem Res.err_bind {α β} (e : String) (f : α → Res β) : ((Res.err e : Res α) >>= f) = .err e := rfl
@[simp] theorem Res.panic_bind {α β} (w : String) (f : α → Res β) : ((Res.panic w : Res α) >>= f) = .panic w := rfl
@[simp] theorem Res.pure_eq {α} (a : α) : (pure a : Res α) = .ok a := rfl

/-! ### Checked slice operations: `panic` exactly where Go panics -/

/-- `d[i]` -/
def Bytes.idx (d : Bytes) (i : Nat) : Res UInt8 :=
  match d[i]? with
  | some b => .ok b
  | none => .panic "index out of range"

/-- `d[lo:hi]` -/
def Bytes.slice (d : Bytes) (lo hi : Nat) : Res Bytes :=
  if lo ≤ hi ∧ hi ≤ d.length then .ok ((d.take hi).drop lo) else .panic "slice bounds out of range"

/-- `d[lo:]` -/
def Bytes.sliceFrom (d : Bytes) (lo : Nat) : Res Bytes :=
  if lo ≤ d.length then .ok (d.drop lo) else .panic "slice bounds out of range"

theorem Bytes.slice_ok (d : Bytes) (lo hi : Nat) (h1 : lo ≤ hi) (h2 : hi ≤ d.length) :
    Bytes.slice d lo hi = .ok ((d.take hi).drop lo) := by simp [Bytes.slice, h1, h2]
theorem Bytes.sliceFrom_ok (d : Bytes) (lo : Nat) (h : lo ≤ d.length) :
    Bytes.sliceFrom d lo = .ok (d.drop lo) := by simp [Bytes.sliceFrom, h]
theorem Bytes.idx_ok (d : Bytes) (i : Nat) (h : i < d.length) : Bytes.idx d i = .ok d[i] := by
  simp [Bytes.idx, h]

/-! ### Big-endian encodings, written with the shifts the Go code uses -/

def be16 (x : UInt16) : Bytes := [(x >>> (8 : UInt16)).toUInt8, x.toUInt8]
def be32 (x : UInt32) : Bytes :=
  [(x >>> (24 : UInt32)).toUInt8, (x >>> (16 : UInt32)).toUInt8, (x >>> (8 : UInt32)).toUInt8, x.toUInt8]
def be24 (x : UInt32) : Bytes := [(x >>> (16 : UInt32)).toUInt8, (x >>> (8 : UInt32)).toUInt8, x.toUInt8]
def be64 (x : UInt64) : Bytes :=
  [(x >>> (56 : UInt64)).toUInt8, (x >>> (48 : UInt64)).toUInt8, (x >>> (40 : UInt64)).toUInt8,
   (x >>> (32 : UInt64)).toUInt8, (x >>> (24 : UInt64)).toUInt8, (x >>> (16 : UInt64)).toUInt8,
   (x >>> (8 : UInt64)).toUInt8, x.toUInt8]
def rd16 (a b : UInt8) : UInt16 := (a.toUInt16 <<< (8 : UInt16)) ||| b.toUInt16
def rd32 (a b c d : UInt8) : UInt32 :=
  (a.toUInt32 <<< (24 : UInt32)) ||| (b.toUInt32 <<< (16 : UInt32)) ||| (c.toUInt32 <<< (8 : UInt32)) ||| d.toUInt32
def rd24 (a b c : UInt8) : UInt32 :=
  (a.toUInt32 <<< (16 : UInt32)) ||| (b.toUInt32 <<< (8 : UInt32)) ||| c.toUInt32
def rd64 (a b c d e f g h : UInt8) : UInt64 :=
  (a.toUInt64 <<< (56 : UInt64)) ||| (b.toUInt64 <<< (48 : UInt64)) ||| (c.toUInt64 <<< (40 : UInt64)) |||
  (d.toUInt64 <<< (32 : UInt64)) ||| (e.toUInt64 <<< (24 : UInt64)) ||| (f.toUInt64 <<< (16 : UInt64)) |||
  (g.toUInt64 <<< (8 : UInt64)) ||| h.toUInt64

/-! ### Buffer writes and big-endian accessors as the generated function translations use them
(`Gen/Funcs.lean`): `panic` exactly where Go panics -/

/-- `d[i] = v` -/
def Bytes.set (d : Bytes) (i : Nat) (v : UInt8) : Res Bytes :=
  if i < d.length then .ok (List.set d i v) else .panic "index out of range"

/-- `binary.BigEndian.PutUint16(d[lo:hi], v)`: the slice expression is checked against the length (= capacity for a
buffer from `make([]byte, n)`), then `PutUint16` needs two bytes -/
def Bytes.putBE16 (d : Bytes) (lo hi : Nat) (v : UInt16) : Res Bytes :=
  if lo ≤ hi ∧ hi ≤ d.length then
    (if hi - lo < 2 then .panic "index out of range" else .ok (d.take lo ++ be16 v ++ d.drop (lo + 2)))
  else .panic "slice bounds out of range"

/-- `binary.BigEndian.PutUint32(d[lo:hi], v)` -/
def Bytes.putBE32 (d : Bytes) (lo hi : Nat) (v : UInt32) : Res Bytes :=
  if lo ≤ hi ∧ hi ≤ d.length then
    (if hi - lo < 4 then .panic "index out of range" else .ok (d.take lo ++ be32 v ++ d.drop (lo + 4)))
  else .panic "slice bounds out of range"

/-- `binary.BigEndian.Uint16(d[lo:hi])` -/
def Bytes.rdBE16 (d : Bytes) (lo hi : Nat) : Res UInt16 :=
  if lo ≤ hi ∧ hi ≤ d.length then
    (match (d.take hi).drop lo with
     | a :: b :: _ => .ok (rd16 a b)
     | _ => .panic "index out of range")
  else .panic "slice bounds out of range"

/-- `binary.BigEndian.Uint32(d[lo:hi])` -/
def Bytes.rdBE32 (d : Bytes) (lo hi : Nat) : Res UInt32 :=
  if lo ≤ hi ∧ hi ≤ d.length then
    (match (d.take hi).drop lo with
     | a :: b :: c :: e :: _ => .ok (rd32 a b c e)
     | _ => .panic "index out of range")
  else .panic "slice bounds out of range"

/-- `binary.BigEndian.Uint64(d[lo:hi])` -/
def Bytes.rdBE64 (d : Bytes) (lo hi : Nat) : Res UInt64 :=
  if lo ≤ hi ∧ hi ≤ d.length then
    (match (d.take hi).drop lo with
     | a :: b :: c :: e :: f :: g :: h :: i :: _ => .ok (rd64 a b c e f g h i)
     | _ => .panic "index out of range")
  else .panic "slice bounds out of range"

/-- `a <<< k ||| b = a * 2^k + b` when `b < 2^k` -/
theorem shl_or (a b k : Nat) (hb : b < 2 ^ k) : a <<< k ||| b = a * 2 ^ k + b := by
  rw [← Nat.shiftLeft_add_eq_or_of_lt hb, Nat.shiftLeft_eq]

theorem rd16_toNat (a b : UInt8) : (rd16 a b).toNat = a.toNat * 256 + b.toNat := by
  have ha : a.toNat < 256 := a.toNat_lt; have hb : b.toNat < 256 := b.toNat_lt
  simp only [rd16, UInt16.toNat_or, UInt16.toNat_shiftLeft, UInt8.toNat_toUInt16]
  have e8 : UInt16.toNat 8 % 16 = 8 := by decide
  have e : a.toNat <<< 8 % 2 ^ 16 = a.toNat <<< 8 := by
    apply Nat.mod_eq_of_lt; simp only [Nat.shiftLeft_eq]; omega
  rw [e8, e, shl_or _ _ _ (by omega)]

theorem be16_rd16 (x : UInt16) : rd16 (x >>> (8 : UInt16)).toUInt8 x.toUInt8 = x := by
  apply UInt16.toNat_inj.mp
  rw [rd16_toNat]
  have hx : x.toNat < 65536 := x.toNat_lt
  simp only [UInt16.toNat_toUInt8, UInt16.toNat_shiftRight]
  have e8 : UInt16.toNat 8 % 16 = 8 := by decide
  rw [e8, Nat.shiftRight_eq_div_pow]
  omega

theorem rd16_be16 (a b : UInt8) : be16 (rd16 a b) = [a, b] := by
  have ha : a.toNat < 256 := a.toNat_lt; have hb : b.toNat < 256 := b.toNat_lt
  have h := rd16_toNat a b
  unfold be16
  congr 1
  · apply UInt8.toNat_inj.mp
    simp only [UInt16.toNat_toUInt8, UInt16.toNat_shiftRight]
    have e8 : UInt16.toNat 8 % 16 = 8 := by decide
    rw [e8, Nat.shiftRight_eq_div_pow, h]; omega
  · congr 1
    apply UInt8.toNat_inj.mp
    simp only [UInt16.toNat_toUInt8]
    rw [h]; omega

theorem rd32_toNat (a b c d : UInt8) :
    (rd32 a b c d).toNat = a.toNat * 16777216 + b.toNat * 65536 + c.toNat * 256 + d.toNat := by
  have ha : a.toNat < 256 := a.toNat_lt; have hb : b.toNat < 256 := b.toNat_lt
  have hc : c.toNat < 256 := c.toNat_lt; have hd : d.toNat < 256 := d.toNat_lt
  simp only [rd32, UInt32.toNat_or, UInt32.toNat_shiftLeft, UInt8.toNat_toUInt32]
  have e24 : UInt32.toNat 24 % 32 = 24 := by decide
  have e16 : UInt32.toNat 16 % 32 = 16 := by decide
  have e8 : UInt32.toNat 8 % 32 = 8 := by decide
  have m24 : a.toNat <<< 24 % 2 ^ 32 = a.toNat * 16777216 := by
    rw [Nat.shiftLeft_eq]; apply Nat.mod_eq_of_lt; omega
  have m16 : b.toNat <<< 16 % 2 ^ 32 = b.toNat * 65536 := by
    rw [Nat.shiftLeft_eq]; apply Nat.mod_eq_of_lt; omega
  have m8 : c.toNat <<< 8 % 2 ^ 32 = c.toNat * 256 := by
    rw [Nat.shiftLeft_eq]; apply Nat.mod_eq_of_lt; omega
  rw [e24, e16, e8, m24, m16, m8]
  have s1 : c.toNat * 256 ||| d.toNat = c.toNat * 256 + d.toNat := by
    have := shl_or c.toNat d.toNat 8 (by omega); rwa [Nat.shiftLeft_eq] at this
  have s2 : b.toNat * 65536 ||| (c.toNat * 256 + d.toNat) = b.toNat * 65536 + (c.toNat * 256 + d.toNat) := by
    have := shl_or b.toNat (c.toNat * 256 + d.toNat) 16 (by omega); rwa [Nat.shiftLeft_eq] at this
  have s3 : a.toNat * 16777216 ||| (b.toNat * 65536 + (c.toNat * 256 + d.toNat))
      = a.toNat * 16777216 + (b.toNat * 65536 + (c.toNat * 256 + d.toNat)) := by
    have := shl_or a.toNat (b.toNat * 65536 + (c.toNat * 256 + d.toNat)) 24 (by omega)
    rwa [Nat.shiftLeft_eq] at this
  rw [Nat.or_assoc, Nat.or_assoc, s1, s2, s3]; omega

theorem be32_rd32 (x : UInt32) :
    rd32 (x >>> (24 : UInt32)).toUInt8 (x >>> (16 : UInt32)).toUInt8 (x >>> (8 : UInt32)).toUInt8 x.toUInt8 = x := by
  apply UInt32.toNat_inj.mp
  rw [rd32_toNat]
  have hx : x.toNat < 4294967296 := x.toNat_lt
  simp only [UInt32.toNat_toUInt8, UInt32.toNat_shiftRight]
  have e24 : UInt32.toNat 24 % 32 = 24 := by decide
  have e16 : UInt32.toNat 16 % 32 = 16 := by decide
  have e8 : UInt32.toNat 8 % 32 = 8 := by decide
  rw [e24, e16, e8]
  simp only [Nat.shiftRight_eq_div_pow]
  omega

theorem rd24_toNat (a b c : UInt8) : (rd24 a b c).toNat = a.toNat * 65536 + b.toNat * 256 + c.toNat := by
  have h := rd32_toNat 0 a b c
  have : rd24 a b c = rd32 0 a b c := by
    simp [rd24, rd32]
  rw [this, h]; simp

/-- the 3-byte body length round-trips exactly for lengths below 2^24 -/
theorem be24_rd24 (x : UInt32) (hx : x.toNat < 16777216) :
    rd24 (x >>> (16 : UInt32)).toUInt8 (x >>> (8 : UInt32)).toUInt8 x.toUInt8 = x := by
  apply UInt32.toNat_inj.mp
  rw [rd24_toNat]
  simp only [UInt32.toNat_toUInt8, UInt32.toNat_shiftRight]
  have e16 : UInt32.toNat 16 % 32 = 16 := by decide
  have e8 : UInt32.toNat 8 % 32 = 8 := by decide
  rw [e16, e8]
  simp only [Nat.shiftRight_eq_div_pow]
  omega

theorem rd24_lt (a b c : UInt8) : (rd24 a b c).toNat < 16777216 := by
  have ha : a.toNat < 256 := a.toNat_lt; have hb : b.toNat < 256 := b.toNat_lt
  have hc : c.toNat < 256 := c.toNat_lt
  rw [rd24_toNat]; omega

/-! ### 64-bit big-endian (nonce) -/

theorem mul_or (a b k : Nat) (hb : b < 2 ^ k) : a * 2 ^ k ||| b = a * 2 ^ k + b := by
  have := shl_or a b k hb; rwa [Nat.shiftLeft_eq] at this

theorem rd64_toNat (a b c d e f g h : UInt8) :
    (rd64 a b c d e f g h).toNat =
      a.toNat * 72057594037927936 + b.toNat * 281474976710656 + c.toNat * 1099511627776 +
      d.toNat * 4294967296 + e.toNat * 16777216 + f.toNat * 65536 + g.toNat * 256 + h.toNat := by
  have ha : a.toNat < 256 := a.toNat_lt; have hb : b.toNat < 256 := b.toNat_lt
  have hc : c.toNat < 256 := c.toNat_lt; have hd : d.toNat < 256 := d.toNat_lt
  have he : e.toNat < 256 := e.toNat_lt; have hf : f.toNat < 256 := f.toNat_lt
  have hg : g.toNat < 256 := g.toNat_lt; have hh : h.toNat < 256 := h.toNat_lt
  simp only [rd64, UInt64.toNat_or, UInt64.toNat_shiftLeft, UInt8.toNat_toUInt64]
  have e56 : UInt64.toNat 56 % 64 = 56 := by decide
  have e48 : UInt64.toNat 48 % 64 = 48 := by decide
  have e40 : UInt64.toNat 40 % 64 = 40 := by decide
  have e32 : UInt64.toNat 32 % 64 = 32 := by decide
  have e24 : UInt64.toNat 24 % 64 = 24 := by decide
  have e16 : UInt64.toNat 16 % 64 = 16 := by decide
  have e8 : UInt64.toNat 8 % 64 = 8 := by decide
  have m56 : a.toNat <<< 56 % 2 ^ 64 = a.toNat * 2 ^ 56 := by
    rw [Nat.shiftLeft_eq]; apply Nat.mod_eq_of_lt; omega
  have m48 : b.toNat <<< 48 % 2 ^ 64 = b.toNat * 2 ^ 48 := by
    rw [Nat.shiftLeft_eq]; apply Nat.mod_eq_of_lt; omega
  have m40 : c.toNat <<< 40 % 2 ^ 64 = c.toNat * 2 ^ 40 := by
    rw [Nat.shiftLeft_eq]; apply Nat.mod_eq_of_lt; omega
  have m32 : d.toNat <<< 32 % 2 ^ 64 = d.toNat * 2 ^ 32 := by
    rw [Nat.shiftLeft_eq]; apply Nat.mod_eq_of_lt; omega
  have m24 : e.toNat <<< 24 % 2 ^ 64 = e.toNat * 2 ^ 24 := by
    rw [Nat.shiftLeft_eq]; apply Nat.mod_eq_of_lt; omega
  have m16 : f.toNat <<< 16 % 2 ^ 64 = f.toNat * 2 ^ 16 := by
    rw [Nat.shiftLeft_eq]; apply Nat.mod_eq_of_lt; omega
  have m8 : g.toNat <<< 8 % 2 ^ 64 = g.toNat * 2 ^ 8 := by
    rw [Nat.shiftLeft_eq]; apply Nat.mod_eq_of_lt; omega
  rw [e56, e48, e40, e32, e24, e16, e8, m56, m48, m40, m32, m24, m16, m8]
  simp only [Nat.or_assoc]
  rw [mul_or g.toNat h.toNat 8 (by omega)]
  rw [mul_or f.toNat _ 16 (by omega)]
  rw [mul_or e.toNat _ 24 (by omega)]
  rw [mul_or d.toNat _ 32 (by omega)]
  rw [mul_or c.toNat _ 40 (by omega)]
  rw [mul_or b.toNat _ 48 (by omega)]
  rw [mul_or a.toNat _ 56 (by omega)]
  omega

theorem be64_rd64 (x : UInt64) :
    rd64 (x >>> (56 : UInt64)).toUInt8 (x >>> (48 : UInt64)).toUInt8 (x >>> (40 : UInt64)).toUInt8
      (x >>> (32 : UInt64)).toUInt8 (x >>> (24 : UInt64)).toUInt8 (x >>> (16 : UInt64)).toUInt8
      (x >>> (8 : UInt64)).toUInt8 x.toUInt8 = x := by
  apply UInt64.toNat_inj.mp
  rw [rd64_toNat]
  have hx : x.toNat < 18446744073709551616 := x.toNat_lt
  simp only [UInt64.toNat_toUInt8, UInt64.toNat_shiftRight]
  have e56 : UInt64.toNat 56 % 64 = 56 := by decide
  have e48 : UInt64.toNat 48 % 64 = 48 := by decide
  have e40 : UInt64.toNat 40 % 64 = 40 := by decide
  have e32 : UInt64.toNat 32 % 64 = 32 := by decide
  have e24 : UInt64.toNat 24 % 64 = 24 := by decide
  have e16 : UInt64.toNat 16 % 64 = 16 := by decide
  have e8 : UInt64.toNat 8 % 64 = 8 := by decide
  rw [e56, e48, e40, e32, e24, e16, e8]
  simp only [Nat.shiftRight_eq_div_pow]
  omega

/-! ### `copy` and the 64-bit store, as the generated encoders use them (`Gen/Funcs.lean`) -/

/-- `binary.BigEndian.PutUint64(d[lo:hi], v)` -/
def Bytes.putBE64 (d : Bytes) (lo hi : Nat) (v : UInt64) : Res Bytes :=
  if lo ≤ hi ∧ hi ≤ d.length then
    (if hi - lo < 8 then .panic "index out of range" else .ok (d.take lo ++ be64 v ++ d.drop (lo + 8)))
  else .panic "slice bounds out of range"

/-- `copy(dst[off:], src)` (`copy(dst, src)` is `off = 0`): the slice expression panics when `off > len(dst)`; `copy` itself never
panics and copies `min(len(dst) - off, len(src))` bytes; the rest of `dst` keeps its contents -/
def Bytes.copyAt (dst : Bytes) (off : Nat) (src : Bytes) : Res Bytes :=
  if off ≤ dst.length then
    .ok (dst.take off ++ src.take (min (dst.length - off) src.length) ++ dst.drop (off + min (dst.length - off) src.length))
  else .panic "slice bounds out of range"

end OAP
