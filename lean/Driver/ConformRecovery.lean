/-
T3 trace conformance for the Recovery view: `recovery.replay max=<n|?> ev=<gid>:<label>[:<conn>];…`
  labels: enter:<conn> start done attempt failall dial:<conn> center creturn
  max=?  MaxReconnect is not in the hook log: the log is replayed for MaxReconnect = 0 … 6 and conforms if it is a trace
         of the model for at least one value (the values are reported)
 output: `ok events=… max=… frontier=… closure=… steps=… | <final model state>`
      or `DIVERGES at event k (<label>, g<gid>, <model thread and pc>) max=… | <model state before the event>`
-/
import Driver.Util
import OAP.Model.Client.RecoveryReplay
namespace Driver
open OAP OAP.Recovery OAP.RecoveryReplay

def parseRecObs (ev : String) : Option Obs :=
  let parts := ev.splitOn ":"
  let nat (i : Nat) : Option Nat := (parts[i]?).bind String.toNat?
  match nat 0, parts[1]? with
  | some g, some "enter" => (nat 2).map fun c => ⟨g, .enter c⟩
  | some g, some "dial" => (nat 2).map fun c => ⟨g, .dialDone c⟩
  | some g, some "start" => some ⟨g, .start⟩
  | some g, some "done" => some ⟨g, .done⟩
  | some g, some "attempt" => some ⟨g, .attempt⟩
  | some g, some "failall" => some ⟨g, .failall⟩
  | some g, some "center" => some ⟨g, .closeEnter⟩
  | some g, some "creturn" => some ⟨g, .closeReturn⟩
  | _, _ => none

def divergenceEvent : ReplayResult → Nat
  | .diverges k _ _ _ => k
  | .broken k _ => k
  | .uncertified k => k
  | .ok k _ _ _ _ => k

def showReplayResult (ms : String) : ReplayResult → String
  | .ok k mf mc acts fin => s!"ok events={k} max={ms} frontier={mf} closure={mc} steps={acts.length} | {fin}"
  | .diverges k o th st => s!"DIVERGES at event {k} ({o.lab.name}, g{o.gid}, {th}) max={ms} | {st}"
  | .broken k w => s!"REPLAY-BROKEN at event {k}: {w} max={ms}"
  | .uncertified k => s!"REPLAY-BROKEN after {k} events: the witness is not a run of the model max={ms}"

def opRecoveryReplay (a : Args) : Option String := do
  let evs := ((a.get? "ev").getD "").splitOn ";" |>.filter (· ≠ "")
  let obs ← evs.mapM parseRecObs
  let mstr := (a.get? "max").getD "?"
  let ms : List Nat := match mstr.toNat? with | some m => [m] | none => List.range 7
  let rs := ms.map fun m => (m, replay m obs)
  let oks := rs.filter fun (_, r) => match r with | .ok .. => true | _ => false
  match oks with
  | (_, r) :: _ => pure (showReplayResult (",".intercalate (oks.map (toString ·.1))) r)
  | [] =>
    -- report the value that got furthest
    let best := rs.foldl (fun acc x => match acc with
      | none => some x
      | some b => if divergenceEvent x.2 > divergenceEvent b.2 then some x else some b) none
    match best with
    | some (m, r) => pure (showReplayResult (toString m) r)
    | none => none

def conformRecoveryOps : List (String × (Args → Option String)) := [("recovery.replay", opRecoveryReplay)]
end Driver
