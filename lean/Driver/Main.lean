/-
oapdriver: evaluates the model's executable definitions on operation lines
(one operation per line on stdin, one canonical result per line on stdout).
The Go harness runs the real code on the same lines; `check` diffs the two streams.
-/
import Driver.Util
import OAP.Model.Handshake
import Driver.Meta
import Driver.Frame
import Driver.Stream
open OAP Driver

def badOp (line : String) : String := s!"bad-op {line}"

def opHsPack (a : Args) : Option String := do
  let v ← a.nat? "v"; let c ← a.nat? "c"; let p ← a.nat? "p"; let r ← a.nat? "r"
  let bs := Handshake.pack { version := v.toUInt8, codec := c.toUInt8, platform := p.toUInt8, reserve := r.toUInt8 }
  pure (toHex bs)

def opHsUnpack (a : Args) : Option String := do
  let bs ← a.bytes? "hex"
  match Handshake.unpack bs with
  | .ok h => pure s!"ok {h.version} {h.codec} {h.platform} {h.reserve}"
  | .err _ => pure "err"
  | .panic _ => pure "panic"

def opHsCtx (a : Args) : Option String := do
  let v ← a.nat? "v"; let c ← a.nat? "c"; let p ← a.nat? "p"; let r ← a.nat? "r"
  match HsCtx.handshake defaultRegistry {} { version := v.toUInt8, codec := c.toUInt8, platform := p.toUInt8, reserve := r.toUInt8 } with
  | .ok c => pure s!"ok {c.version} {c.codec} {c.platform} {c.handshaked}"
  | .err _ => pure "err"
  | .panic _ => pure "panic"

def opProtoGet (a : Args) : Option String := do
  let v ← a.nat? "v"
  match getProtocol defaultRegistry v.toUInt8 with
  | .ok _ => pure "ok" | .err _ => pure "err" | .panic _ => pure "panic"

def dispatch (op : String) (a : Args) : Option String :=
  match op with
  | "hs.pack" => opHsPack a
  | "hs.unpack" => opHsUnpack a
  | "hs.ctx" => opHsCtx a
  | "proto.get" => opProtoGet a
  | _ => ((Driver.metaOps ++ Driver.frameOps ++ Driver.streamOps).find? (·.1 == op)).bind (fun f => f.2 a)

partial def loop (hin : IO.FS.Stream) (hout : IO.FS.Stream) : IO Unit := do
  let line ← hin.getLine
  if line.isEmpty then return ()
  let (op, args) := parseLine line
  if op == "" || op.startsWith "#" then
    loop hin hout
  else
    match dispatch op args with
    | some out => hout.putStrLn out
    | none => hout.putStrLn (badOp line.trimAscii.toString)
    loop hin hout

def main : IO Unit := do
  let hin ← IO.getStdin
  let hout ← IO.getStdout
  loop hin hout
  hout.flush
