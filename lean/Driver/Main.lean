/-
oapdriver: evaluates the model's executable definitions on operation lines
(one operation per line on stdin, one canonical result per line on stdout).
The Go harness runs the real code on the same lines; `check` diffs the two streams.
-/
import Driver.Util
import OAP.Model.Handshake
import Driver.Meta
import Driver.Frame
import Driver.Stream
import Driver.Gz
import Driver.Misc
import Driver.Conform
import Driver.ConformRec
import Driver.ConformRecovery
import Driver.ConformConn
open OAP Driver

def badOp (line : String) : String := s!"bad-op {line}"

def opHsPack (a : Args) : Option String := do
  let v ← a.nat? "v"; let c ← a.nat? "c"; let p ← a.nat? "p"; let r ← a.nat? "r"
  let bs := Handshake.pack { version := v.toUInt8, codec := c.toUInt8, platform := p.toUInt8, reserve := r.toUInt8 }
  pure (toHex bs)

def opHsUnpack (a : Args) : Option String := do
  let bs ← a.bytes? "hex"
  match Handshake.unpack bs with
  | .ok h => pure s!"ok {h.version} {h.codec} {h.platform} {h.reserve}"
  | .err _ => pure "err"
  | .panic _ => pure "panic"

def opHsCtx (a : Args) : Option String := do
  let v ← a.nat? "v"; let c ← a.nat? "c"; let p ← a.nat? "p"; let r ← a.nat? "r"
  match HsCtx.handshake defaultRegistry {} { version := v.toUInt8, codec := c.toUInt8, platform := p.toUInt8, reserve := r.toUInt8 } with
  | .ok c => pure s!"ok {c.version} {c.codec} {c.platform} {c.handshaked}"
  | .err _ => pure "err"
  | .panic _ => pure "panic"

def opProtoGet (a : Args) : Option String := do
  let v ← a.nat? "v"
  match getProtocol defaultRegistry v.toUInt8 with
  | .ok _ => pure "ok" | .err _ => pure "err" | .panic _ => pure "panic"

def dispatch (op : String) (a : Args) : Option String :=
  match op with
  | "hs.pack" => opHsPack a
  | "hs.unpack" => opHsUnpack a
  | "hs.ctx" => opHsCtx a
  | "proto.get" => opProtoGet a
  | _ => ((Driver.metaOps ++ Driver.frameOps ++ Driver.streamOps ++ Driver.gzOps ++ Driver.miscOps ++ Driver.reqOps ++ Driver.conformOps ++ Driver.conformRecOps ++ Driver.conformRecoveryOps ++ Driver.conformConnOps).find? (·.1 == op)).bind (fun f => f.2 a)

/-- per-connection streaming state kept across lines (C11 histories): context id ↦ (parked header, ring) -/
abbrev DState := List (Nat × (Option Header × Ring))

def DState.get (st : DState) (c : Nat) : Option Header × Ring :=
  match st.find? (·.1 == c) with
  | some e => e.2
  | none => (none, Ring.new 16)
def DState.set (st : DState) (c : Nat) (x : Option Header × Ring) : DState :=
  (c, x) :: st.filter (·.1 != c)

/-- `sfeed ctx=<i> v= codec= hex=<chunk> [gzt=…]`: write the chunk into the context's ring and call Unpack until
it no longer reports a packet; after an error the context's ring is replaced by a fresh one -/
partial def opSfeed (a : Args) (st : DState) : Option (String × DState) := do
  let c ← a.nat? "ctx"
  let v ← parseVer a
  let gz ← oracleTable a
  let codec ← a.nat? "codec"
  let chunk ← a.bytes? "hex"
  let (pend0, rb0) := st.get c
  let mut pend := pend0
  let mut rb := rb0.write chunk
  let mut calls : Array String := #[]
  let mut again := true
  let mut failed := false
  let mut fuel := chunk.length + rb0.length + 4
  while again && fuel > 0 do
    fuel := fuel - 1
    let o := Frame.unpackRing v gz codec.toUInt8 pend rb
    pend := o.pend
    rb := o.rb
    calls := calls.push s!"{showSRes o.res} len={rb.length}"
    match o.res with
    | .pkt _ => again := true
    | .more => again := false
    | _ => again := false; failed := true
  let st' := if failed then st.set c (none, Ring.new 16) else st.set c (pend, rb)
  pure (s!"[w{chunk.length}: {"; ".intercalate calls.toList}]", st')

def dispatchS (op : String) (a : Args) (st : DState) : Option (String × DState) :=
  if op == "sfeed" then opSfeed a st
  else if op == "hist.reset" then some ("ok", [])
  else (dispatch op a).map (·, st)

partial def loop (hin : IO.FS.Stream) (hout : IO.FS.Stream) (st : DState) : IO Unit := do
  let line ← hin.getLine
  if line.isEmpty then return ()
  let (op, args) := parseLine line
  if op == "" || op.startsWith "#" then
    loop hin hout st
  else
    match dispatchS op args st with
    | some (out, st') => hout.putStrLn out; loop hin hout st'
    | none => hout.putStrLn (badOp line.trimAscii.toString); loop hin hout st

def main : IO Unit := do
  let hin ← IO.getStdin
  let hout ← IO.getStdout
  loop hin hout []
  hout.flush
