/-
T3 trace conformance for the ConnThreads view: `connthreads.replay ws=<0|1> [pcap=<n>] [wcap=<n>] ev=<label>[:n[:m]];…`
  labels: read:<n>  drop  before:<gid>  enq:<gid>:<len>  rexit  wexit  dexit      (one connection's hook log, in order)
  pcap   ReadQueueSize of the model (default 4; only a logged drop depends on it)
  wcap   WriteQueueSize of the run if known (then a Write refused with "write queue full" is replayed as `send` → rejected and the
         writer's deliveries are part of the search); absent: number of events + 1, refused Writes are consumed without a model step
 output: `ok events=… frontier=… closure=… steps=… | <final model state>`
      or `DIVERGES at event k (<label>) | <a model state before the event>`
-/
import Driver.Util
import OAP.Model.Client.ConnThreadsReplay
namespace Driver
open OAP OAP.ConnThreads OAP.ConnThreadsReplay

def parseConnEv (ev : String) : Option Ev :=
  let parts := ev.splitOn ":"
  let nat (i : Nat) : Option Nat := (parts[i]?).bind String.toNat?
  match parts[0]? with
  | some "read" => (nat 1).map .read
  | some "drop" => some .drop
  | some "before" => (nat 1).map .before
  | some "enq" => (nat 1).map fun g => .enq g ((nat 2).getD 0)
  | some "rexit" => some .rexit
  | some "wexit" => some .wexit
  | some "dexit" => some .dexit
  | _ => none

def showConnResult : ReplayResult → String
  | .ok k mf mc acts fin => s!"ok events={k} frontier={mf} closure={mc} steps={acts.length} | {fin}"
  | .diverges k e st => s!"DIVERGES at event {k} ({e.name}) | {st}"
  | .broken k w => s!"REPLAY-BROKEN at event {k}: {w}"
  | .uncertified k => s!"REPLAY-BROKEN after {k} events: the witness is not a run of the model"

def opConnReplay (a : Args) : Option String := do
  let evs := ((a.get? "ev").getD "").splitOn ";" |>.filter (· ≠ "")
  let obs ← evs.mapM parseConnEv
  let ws := (a.get? "ws").getD "0" == "1"
  let pcap := ((a.get? "pcap").bind String.toNat?).getD 4
  let wcap := (a.get? "wcap").bind String.toNat?
  pure (showConnResult (replay ws pcap wcap obs))

def conformConnOps : List (String × (Args → Option String)) := [("connthreads.replay", opConnReplay)]
end Driver
