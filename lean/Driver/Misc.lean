import Driver.Util
import Driver.Frame
import OAP.Model.PacketErr
import OAP.Model.Request
namespace Driver
open OAP

/-- `perr type= st= codec= body= dec=none|<code>:<msghex>` -/
def opPerr (a : Args) : Option String := do
  let t := parseType ((a.get? "type").getD "other")
  let st ← a.nat? "st"; let codec ← a.nat? "codec"; let body ← a.bytes? "body"
  let d ← a.get? "dec"
  let dec : ErrDecoder ← (if d == "none" then some (fun _ _ => none) else
    match d.splitOn ":" with
    | [c, m] => do
      let c ← c.toNat?; let m ← parseHex m
      pure (fun _ _ => some (c, toHex m))
    | _ => none)
  match Packet.err dec { type := t, status := st.toUInt8, codec := codec.toUInt8, body := body } with
  | none => pure "nil"
  | some e => pure s!"err status={e.status} code={e.code} msg={if e.msg == fallbackMsg then "FALLBACK" else e.msg}"

def miscOps : List (String × (Args → Option String)) := [("perr", opPerr)]
end Driver

namespace Driver
open OAP OAP.Request

def parseOpt (s : String) : Option Opt :=
  if s == "v" then some (.withVerify 7 [1, 2])
  else if s.startsWith "r" then (s.drop 1).toString.toNat?.map (fun n => .withRequestId n.toUInt32)
  else if s.startsWith "s" then (s.drop 1).toString.toNat?.map (fun n => .withStatusCode n.toUInt8)
  else none

/-- `newpkts seq=req+v+r7;resp5+r2;push+s3;…` on one fresh context -/
def opNewPkts (a : Args) : Option String := do
  let items := ((a.get? "seq").getD "").splitOn ";" |>.filter (· ≠ "")
  let mut g : IdGen := {}
  let mut out : Array String := #[]
  for it in items do
    match it.splitOn "+" with
    | [] => none
    | kind :: os =>
      let opts ← os.mapM parseOpt
      let md ← (if kind == "req" then
          let (m, g') := newRequest g opts
          some (m, g')
        else if kind == "push" then some (newPush opts, g)
        else if kind.startsWith "resp" then (kind.drop 4).toString.toNat?.map (fun c => (newResponse c.toUInt8 opts, g))
        else none)
      g := md.2
      out := out.push s!"{md.1.rid},{md.1.status},{if md.1.verify then 1 else 0}"
  pure (s!"next={g.counter + 1} " ++ " ".intercalate out.toList)

def reqOps : List (String × (Args → Option String)) := [("newpkts", opNewPkts), ("ids.note", fun _ => some "ok")]
end Driver
