import Driver.Util
import Driver.Frame
import OAP.Model.Stream
namespace Driver
open OAP OAP.Frame

def showRing (rb : Ring) : String :=
  let fe := rb.peekAll
  s!"len={rb.length} cap={rb.size} e={if rb.isEmpty then 1 else 0} fl={fe.1.length},{fe.2.length}"

def initRing (s : String) : Option Ring :=
  if s.startsWith "new:" then (s.drop 4).toString.toNat?.map Ring.new
  else if s.startsWith "data:" then (parseBytes (s.drop 5).toString).map Ring.newWithData
  else none

/-- `ring init=new:<cap>|data:<bytes> ops=w:<bytes>;r:<n>;p:<n>;t:<n>;u8;u16;u32;u64;all;len` -/
def opRing (a : Args) : Option String := do
  let rb0 ← (a.get? "init").bind initRing
  let ops := ((a.get? "ops").getD "").splitOn ";"
  let mut rb := rb0
  let mut out : Array String := #[]
  for o in ops do
    if o == "" then continue
    let (ret, rb') ← (
      if o.startsWith "w:" then do
        let p ← parseBytes (o.drop 2).toString
        pure (s!"w{p.length}", rb.write p)
      else if o.startsWith "r:" then do
        let n ← (o.drop 2).toString.toNat?
        match rb.read n with
        | .ok (d, rb') => pure (s!"r={showBytes d}", rb')
        | .err _ => pure ("r=err", rb)
        | .panic _ => pure ("r=panic", rb)
      else if o.startsWith "p:" then do
        let n ← (o.drop 2).toString.toNat?
        let fe := rb.peek n
        pure (s!"p={showBytes fe.1}+{showBytes fe.2}", rb)
      else if o.startsWith "t:" then do
        let n ← (o.drop 2).toString.toNat?
        pure ("t", rb.retrieve n)
      else if o == "u8" then pure (match rb.peekUint8 with | .ok x => s!"u8={x}" | _ => "u8=panic", rb)
      else if o == "u16" then pure (match rb.peekUint16 with | .ok x => s!"u16={x}" | _ => "u16=panic", rb)
      else if o == "u32" then pure (match rb.peekUint32 with | .ok x => s!"u32={x}" | _ => "u32=panic", rb)
      else if o == "u64" then pure (match rb.peekUint64 with | .ok x => s!"u64={x}" | _ => "u64=panic", rb)
      else if o == "all" then
        let fe := rb.peekAll
        pure (s!"all={showBytes fe.1}+{showBytes fe.2}", rb)
      else if o == "len" then pure ("len", rb)
      else none)
    rb := rb'
    out := out.push s!"{ret} {showRing rb}"
  pure (" | ".intercalate out.toList)

/-- gzip oracle table `gzt=<fnv>:<len>:ok:<bytes>,<fnv>:<len>:bad,…` keyed by the body section; default: header rejected -/
def oracleTable (a : Args) : Option GzOracle := do
  match a.get? "gzt" with
  | none => oracleOf a
  | some s =>
    let entries ← (s.splitOn ",").mapM fun e =>
      match e.splitOn ":" with
      | f :: l :: "ok" :: rest => do
        let f ← f.toNat?; let l ← l.toNat?; let p ← parseBytes (":".intercalate rest)
        pure (f, l, some (p, true))
      | [f, l, "bad"] => do let f ← f.toNat?; let l ← l.toNat?; pure (f, l, some (([] : Bytes), false))
      | [f, l, "none"] => do let f ← f.toNat?; let l ← l.toNat?; pure (f, l, (none : Option (Bytes × Bool)))
      | _ => none
    pure { compress := fun _ => .err "no-oracle",
           read := fun bs => match entries.find? (fun e => e.1 == (fnv1a bs).toNat && e.2.1 == bs.length) with
             | some e => e.2.2
             | none => none }

def showSRes : SRes → String
  | .more => "more"
  | .pkt p => "pkt " ++ showPacket p
  | .err _ => "err"
  | .panic _ => "panic"

/-- `stream v= codec= cap=<n> pre=<n> chunks=<sizes> hex=<stream> [gzt=…]`: a fresh ring of capacity `cap`
whose pointers are first moved to offset `pre` (write `pre` bytes, read them back), then every chunk is written
and `Unpack` is called until it no longer reports a packet (the connection's readPacket loop); after an error
nothing more is fed -/
partial def opStream (a : Args) : Option String := do
  let v ← parseVer a
  let gz ← oracleTable a
  let codec ← a.nat? "codec"
  let cap ← a.nat? "cap"
  let pre ← a.nat? "pre"
  let data ← a.bytes? "hex"
  let sizes ← (((a.get? "chunks").getD "").splitOn ",").filter (· ≠ "") |>.mapM String.toNat?
  let mut rb := Ring.new cap
  if pre > 0 then
    rb := rb.write (List.replicate pre 0xEE)
    match rb.read pre with
    | .ok (_, rb') => rb := rb'
    | _ => pure ()
  let mut pend : Option Header := none
  let mut rest := data
  let mut out : Array String := #[]
  let mut stop := false
  for n in sizes do
    if stop then break
    let chunk := rest.take n
    rest := rest.drop n
    rb := rb.write chunk
    let mut calls : Array String := #[]
    let mut again := true
    let mut fuel := chunk.length + 4
    while again && fuel > 0 do
      fuel := fuel - 1
      let o := unpackRing v gz codec.toUInt8 pend rb
      pend := o.pend
      rb := o.rb
      calls := calls.push s!"{showSRes o.res} len={rb.length}"
      match o.res with
      | .pkt _ => again := true
      | .more => again := false
      | _ => again := false; stop := true
    out := out.push s!"[w{chunk.length}: {"; ".intercalate calls.toList}]"
  pure (" ".intercalate out.toList)

def streamOps : List (String × (Args → Option String)) := [("ring", opRing), ("stream", opStream)]

end Driver
