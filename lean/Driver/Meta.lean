import Driver.Util
import OAP.Model.Metadata
namespace Driver
open OAP OAP.Metadata

/-- pair items: `h<hex>` or `r<byte>x<n>`; pairs `k:v` separated by `,`; `-` = no pairs -/
def parseItem (s : String) : Option Bytes :=
  if s.startsWith "h" then parseHex (s.drop 1).toString
  else if s.startsWith "r" then
    match (s.drop 1).toString.splitOn "x" with
    | [b, n] => do let b ← b.toNat?; let n ← n.toNat?; pure (List.replicate n b.toUInt8)
    | _ => none
  else none

def parsePairs (s : String) : Option (List Pair) :=
  if s == "-" || s == "" then some [] else
  (s.splitOn ",").mapM fun kv =>
    match kv.splitOn ":" with
    | [k, v] => do let k ← parseItem k; let v ← parseItem v; pure (k, v)
    | _ => none

def showRaw (ps : List Pair) : String :=
  "raw=" ++ (if ps.isEmpty then "-" else ",".intercalate (ps.map fun kv => toHex kv.1 ++ ":" ++ toHex kv.2))

def opMdStr (a : Args) : Option String := do
  let b ← a.nat? "rep"; let n ← a.nat? "n"
  match marshalString (List.replicate n b.toUInt8) with
  | some bs => pure s!"ok {showBytes bs}"
  | none => pure "toolong"

def opMdStrlen (a : Args) : Option String := do
  let bs ← a.bytes? "hex"
  match unmarshalStringLength bs with
  | .ok (l, bits) => pure s!"ok {l} {bits}"
  | .err _ => pure "err"
  | .panic _ => pure "panic"

def opMdDecode (a : Args) : Option String := do
  let bs ← a.bytes? "hex"
  match rawPairs bs with
  | .ok ps => pure s!"ok {showRaw ps}"
  | .err _ => pure "err"
  | .panic _ => pure "panic"

def opMdEncodeMap (a : Args) : Option String := do
  let max ← a.int? "max"
  let ps ← (a.get? "pairs").bind parsePairs
  pure (showBytes (marshalMap ps max))

def opMdSet (a : Args) : Option String := do
  let k ← a.nat? "klen"; let v ← a.nat? "vlen"
  match set id [] (List.replicate k 97) (List.replicate v 98) with
  | .ok _ => pure "ok" | .err _ => pure "err" | .panic _ => pure "panic"

def metaOps : List (String × (Args → Option String)) :=
  [("md.str", opMdStr), ("md.strlen", opMdStrlen), ("md.decode", opMdDecode),
   ("md.encode.map", opMdEncodeMap), ("md.set", opMdSet)]

end Driver
