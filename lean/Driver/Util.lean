/-
Line-protocol utilities of the model driver: `op key=value …` parsing, hex, FNV-1a.
-/
import OAP.Base
namespace Driver
open OAP

def hexDigit (c : Char) : Option UInt8 :=
  if '0' ≤ c ∧ c ≤ '9' then some (c.toNat - '0'.toNat).toUInt8
  else if 'a' ≤ c ∧ c ≤ 'f' then some (c.toNat - 'a'.toNat + 10).toUInt8
  else if 'A' ≤ c ∧ c ≤ 'F' then some (c.toNat - 'A'.toNat + 10).toUInt8
  else none

partial def parseHexAux (cs : List Char) (acc : Array UInt8) : Option (Array UInt8) :=
  match cs with
  | [] => some acc
  | a :: b :: rest =>
    match hexDigit a, hexDigit b with
    | some x, some y => parseHexAux rest (acc.push (x * 16 + y))
    | _, _ => none
  | _ => none

def parseHex (s : String) : Option Bytes := (parseHexAux s.toList #[]).map (·.toList)

def hexChar (n : UInt8) : Char :=
  if n < 10 then Char.ofNat ('0'.toNat + n.toNat) else Char.ofNat ('a'.toNat + n.toNat - 10)

def toHex (bs : Bytes) : String :=
  String.ofList (bs.foldr (fun (b : UInt8) acc => hexChar (b >>> (4 : UInt8)) :: hexChar (b &&& (0xf : UInt8)) :: acc) [])

/-- splitmix64 step — the same generator as the Go harness (`prng:<seed>:<n>` bodies) -/
def splitmix (s : UInt64) : UInt64 × UInt64 :=
  let s := s + 0x9e3779b97f4a7c15
  let z := s
  let z := (z ^^^ (z >>> 30)) * 0xbf58476d1ce4e5b9
  let z := (z ^^^ (z >>> 27)) * 0x94d049bb133111eb
  (s, z ^^^ (z >>> 31))

partial def prngBytes (seed : UInt64) (n : Nat) : Bytes := Id.run do
  let mut s := seed
  let mut out : Array UInt8 := Array.mkEmpty n
  let mut i := 0
  while i < n do
    let (s', z) := splitmix s
    s := s'
    let mut k := 0
    let mut zz := z
    while k < 8 ∧ i < n do
      out := out.push zz.toUInt8
      zz := zz >>> 8
      k := k + 1
      i := i + 1
  return out.toList

/-- byte strings on a line: `hex:…`, `rep:<byte>:<n>`, `prng:<seed>:<n>`, `-` (empty) -/
partial def parseBytes (s : String) : Option Bytes :=
  if s == "-" || s == "" then some []
  else if s.startsWith "cat:" then
    ((s.drop 4).toString.splitOn "+").foldlM (fun acc part => (parseBytes part).map (acc ++ ·)) []
  else if s.startsWith "hex:" then parseHex (s.drop 4).toString
  else if s.startsWith "rep:" then
    match (s.drop 4).toString.splitOn ":" with
    | [b, n] => do let b ← b.toNat?; let n ← n.toNat?; pure (List.replicate n b.toUInt8)
    | _ => none
  else if s.startsWith "prng:" then
    match (s.drop 5).toString.splitOn ":" with
    | [sd, n] => do let sd ← sd.toNat?; let n ← n.toNat?; pure (prngBytes sd.toUInt64 n)
    | _ => none
  else parseHex s

def fnv1a (bs : Bytes) : UInt64 :=
  bs.foldl (fun h b => (h ^^^ b.toUInt64) * 0x100000001b3) 0xcbf29ce484222325

/-- short canonical rendering of a byte string: hex when small, else length + FNV-1a -/
def showBytes (bs : Bytes) : String :=
  if bs.length ≤ 64 then "hex:" ++ toHex bs else s!"len:{bs.length},fnv:{(fnv1a bs).toNat}"

abbrev Args := List (String × String)

def parseLine (line : String) : String × Args :=
  match (line.trimAscii.toString.splitOn " ").filter (· ≠ "") with
  | [] => ("", [])
  | op :: rest =>
    (op, rest.map fun kv =>
      match kv.splitOn "=" with
      | k :: v => (k, "=".intercalate v)
      | [] => (kv, ""))

def Args.get? (a : Args) (k : String) : Option String := (a.find? (·.1 == k)).map (·.2)
def Args.nat? (a : Args) (k : String) : Option Nat := (a.get? k).bind String.toNat?
def Args.int? (a : Args) (k : String) : Option Int := (a.get? k).bind String.toInt?
def Args.bytes? (a : Args) (k : String) : Option Bytes := (a.get? k).bind parseBytes

end Driver
