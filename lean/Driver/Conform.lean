/-
T3 trace conformance: replays the hook log of a real client run through the Waiters LTS. Every logged operation
must be an ENABLED action of the model, and every data-dependent outcome the code logged (lookup hit / duplicate /
miss) must be the one the model state predicts.
-/
import Driver.Util
import OAP.Model.Client.Waiters
namespace Driver
open OAP OAP.Waiters

structure RState where
  s : St := Waiters.init
  epochOf : List (Nat × Nat) := []      -- real conn id ↦ model connection number
  callOf : List (Nat × Nat) := []       -- goroutine id ↦ its current call index
  nextCall : Nat := 0
  seq : Nat := 0

def lookupAL (l : List (Nat × Nat)) (k : Nat) : Option Nat := (l.find? (·.1 == k)).map (·.2)

/-- one logged event; `none` = not a trace of the model (with the reason) -/
def replayEvent (r : RState) (ev : String) : Except String RState :=
  let parts := ev.splitOn ":"
  let nat (i : Nat) : Option Nat := (parts[i]?).bind String.toNat?
  let stepM (a : Act) (what : String) : Except String St :=
    match step r.s a with
    | some s' => .ok s'
    | none => .error s!"{what}: action not enabled in the model state"
  match parts[0]? with
  | some "newconn" =>
    match nat 1 with
    | some id => do
      let s' ← stepM .newConn ev
      pure { r with s := s', epochOf := (id, s'.cur) :: r.epochOf }
    | none => .error s!"{ev}: malformed"
  | some "failall" => do
    let s' ← stepM .failAll ev
    pure { r with s := s' }
  | some "reg" =>
    match nat 1, nat 2, nat 3 with
    | some g, some rid, some conn =>
      match lookupAL r.epochOf conn with
      | none => .error s!"{ev}: request registered for a connection the model has never seen"
      | some ep =>
        if ep ≠ r.s.cur then .error s!"{ev}: registered for connection {ep}, the model's current connection is {r.s.cur}"
        else if r.s.issued rid then .error s!"{ev}: request id {rid} is not fresh on this connection"
        else do
          let i := r.nextCall
          let s' ← stepM (.start i rid) ev
          pure { r with s := s', callOf := (g, i) :: r.callOf.filter (·.1 != g), nextCall := i + 1 }
    | _, _, _ => .error s!"{ev}: malformed"
  | some "enq" =>
    match nat 1 with
    | some g =>
      match lookupAL r.callOf g with
      | none => .ok r                                  -- a write that belongs to no request call (handshake, ping, echo)
      | some i =>
        match r.s.call i with
        | .registered _ _ => do
          let s' ← stepM (.write i true) ev
          pure { r with s := s' }
        | _ => .ok r
    | none => .error s!"{ev}: malformed"
  | some "look" =>
    match nat 1, nat 2, nat 3 with
    | some rid, some outcome, some conn =>
      let ep := (lookupAL r.epochOf conn).getD 1000000
      let predict (s : St) : Nat :=
        match s.recvs rid with
        | some (i, c) => if c = ep then (match s.chan i with | .empty => 1 | _ => 2) else 0
        | none => 0
      -- the caller's taking of a response out of its slot is not logged: when the code delivered although the model's
      -- slot is still full, the (enabled) internal step `wake` of that call must have happened in between
      let s0 : St :=
        if predict r.s = 2 ∧ outcome = 1 then
          match r.s.recvs rid with
          | some (i, _) => (match r.s.call i, r.s.chan i with
              | .written _ _, .full _ => (step r.s (.wake i)).getD r.s
              | _, _ => r.s)
          | none => r.s
        else r.s
      let predicted := predict s0
      if predicted ≠ outcome then
        .error s!"{ev}: the code logged outcome {outcome} (0 miss, 1 delivered, 2 duplicate), the model state predicts {predicted}"
      else
        match step s0 (.dispatch ⟨ep, rid, r.seq⟩) with
        | some s' => .ok { r with s := s', seq := r.seq + 1 }
        | none => .error s!"{ev}: dispatch not enabled"
    | _, _, _ => .error s!"{ev}: malformed"
  | some "unreg" =>
    match nat 1, nat 2 with
    | some g, some rid =>
      match lookupAL r.callOf g with
      | none => .error s!"{ev}: unregister by a goroutine without a registered call"
      | some i =>
        -- the code logs only the deferred unregister: the decision step (write error / response taken / closed / deadline)
        -- happened before it, unobserved; it is inferred from the model state, then `finish` must be enabled
        let decided : Except String St :=
          match r.s.call i with
          | .registered _ r' =>
            if r' ≠ rid then .error s!"{ev}: unregisters id {rid}, its call holds id {r'}" else stepM (.write i false) ev
          | .written _ r' =>
            if r' ≠ rid then .error s!"{ev}: unregisters id {rid}, its call holds id {r'}" else
            stepM (match r.s.chan i with | .empty => Act.giveUp i | _ => Act.wake i) ev
          | .returning _ r' _ => if r' ≠ rid then .error s!"{ev}: unregisters id {rid}, its call holds id {r'}" else .ok r.s
          | _ => .error s!"{ev}: unregister by a call that is not in flight"
        match decided with
        | .error e => .error e
        | .ok s1 =>
          match step s1 (.finish i) with
          | some s2 => .ok { r with s := s2 }
          | none => .error s!"{ev}: finish not enabled"
    | _, _ => .error s!"{ev}: malformed"
  | _ => .error s!"{ev}: unknown event"

def opWaitersReplay (a : Args) : Option String := do
  let evs := ((a.get? "ev").getD "").splitOn ";" |>.filter (· ≠ "")
  let rec go (r : RState) (k : Nat) : List String → String
    | [] => s!"ok events={k} calls={r.nextCall} conns={r.s.cur}"
    | e :: es =>
      match replayEvent r e with
      | .ok r' => go r' (k + 1) es
      | .error msg => s!"mismatch at event {k}: {msg}"
  pure (go {} 0 evs)

def conformOps : List (String × (Args → Option String)) := [("waiters.replay", opWaitersReplay)]
end Driver
