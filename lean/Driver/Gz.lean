import Driver.Util
import Driver.Frame
import OAP.Model.Inflate
namespace Driver
open OAP

def opGzDec (a : Args) : Option String := do
  let gz ← oracleOf a
  let bs ← a.bytes? "hex"
  match Gzip.decompress gz bs with
  | .ok out => pure s!"ok {showBytes out}"
  | .err _ => pure "err"
  | .panic _ => pure "panic"

/-- informational lines of the harness (the result is whatever the harness observed; the model has nothing to say) -/
def opGzNote (a : Args) : Option String :=
  match a with
  | ("compress-error", _) :: _ => some "ok"
  | ("roundtrip", _) :: _ => some "ok"
  | ("concurrent", _) :: _ => some "done"
  | _ => some "ok"

/-- `gunzip hex=<bytes> [ms=0]`: the native gzip reader (`OAP.Inflate.gunzip`, multistream as the library's `Decompress`;
`ms=0` selects `gunzipFirst`, the `Multistream(false)` variant). `ok len:<n>,fnv:<fnv1a-64>` for a complete valid stream,
`err` otherwise (header rejected, or an error after some output) -/
def opGunzip (a : Args) : Option String := do
  let bs ← a.bytes? "hex"
  let r := if a.get? "ms" == some "0" then Inflate.gunzipFirst bs else Inflate.gunzip bs
  match r with
  | some (out, true) => pure s!"ok len:{out.length},fnv:{(fnv1a out).toNat}"
  | _ => pure "err"

/-- `inflate hex=<bytes>`: raw deflate stream; `ok len:<n>,fnv:<fnv>,rest:<unread bytes>` | `err` -/
def opInflate (a : Args) : Option String := do
  let bs ← a.bytes? "hex"
  match Inflate.inflate bs with
  | some (out, rest) => pure s!"ok len:{out.length},fnv:{(fnv1a out).toNat},rest:{rest.length}"
  | none => pure "err"

/-- `gzstored hex=<bytes>`: the native stored-block compressor's stream, as hex -/
def opGzStored (a : Args) : Option String := do
  let bs ← a.bytes? "hex"
  pure (toHex (Inflate.storedGzip bs))

def gzOps : List (String × (Args → Option String)) :=
  [("gz.dec", opGzDec), ("gz.note", opGzNote), ("gunzip", opGunzip), ("inflate", opInflate), ("gzstored", opGzStored)]
end Driver
