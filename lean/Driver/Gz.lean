import Driver.Util
import Driver.Frame
namespace Driver
open OAP

def opGzDec (a : Args) : Option String := do
  let gz ← oracleOf a
  let bs ← a.bytes? "hex"
  match Gzip.decompress gz bs with
  | .ok out => pure s!"ok {showBytes out}"
  | .err _ => pure "err"
  | .panic _ => pure "panic"

/-- informational lines of the harness (the result is whatever the harness observed; the model has nothing to say) -/
def opGzNote (a : Args) : Option String :=
  match a with
  | ("compress-error", _) :: _ => some "ok"
  | ("roundtrip", _) :: _ => some "ok"
  | ("concurrent", _) :: _ => some "done"
  | _ => some "ok"

def gzOps : List (String × (Args → Option String)) := [("gz.dec", opGzDec), ("gz.note", opGzNote)]
end Driver
