import Driver.Util
import Driver.Meta
import OAP.Model.Frame
import OAP.Spec.Layout
namespace Driver
open OAP OAP.Frame

def parseVer (a : Args) : Option Ver := do
  let v ← a.nat? "v"
  if v == 1 then some .v1 else if v == 2 then some .v2 else none

def parseType (s : String) : PType :=
  if s == "request" then .request else if s == "response" then .response else if s == "push" then .push else .other
def showType : PType → String
  | .request => "request" | .response => "response" | .push => "push" | .other => "other"

/-- the gzip oracle of one operation line: `gz=<bytes>` (what Compress returned on this body),
`gzr=ok:<bytes> | bad | none` (what the standard reader says about this frame's body section) -/
def oracleOf (a : Args) : Option GzOracle := do
  let comp : Bytes → Res Bytes ← (match a.get? "gz" with
    | none => some (fun _ => Res.err "no-oracle")
    | some s => (parseBytes s).map (fun c => fun _ => Res.ok c))
  let rd : Bytes → Option (Bytes × Bool) ← (match a.get? "gzr" with
    | none => some (fun _ => none)
    | some s =>
      if s == "none" then some (fun _ => none)
      else if s == "bad" then some (fun _ => some ([], false))
      else if s.startsWith "ok:" then (parseBytes (s.drop 3).toString).map (fun p => fun _ => some (p, true))
      else none)
  pure { compress := comp, read := rd }

def showPacket (p : Packet) : String :=
  s!"type={showType p.type} cmd={p.cmd} rid={p.rid} to={p.timeout} st={p.status} verify={if p.verify then 1 else 0} gzip={if p.gzip then 1 else 0} nonce={p.nonce} sig={showBytes p.signature} {showRaw p.values} body={showBytes p.body}"

def opPack (a : Args) : Option String := do
  let v ← parseVer a
  let gz ← oracleOf a
  let thr ← a.int? "thr"
  let p : Packet := {
    type := parseType ((a.get? "type").getD "other")
    cmd := (← a.nat? "cmd").toUInt32, rid := (← a.nat? "rid").toUInt32, timeout := (← a.nat? "to").toUInt16
    status := (← a.nat? "st").toUInt8, verify := (← a.nat? "verify") == 1, gzip := ((a.nat? "gzip").getD 0) == 1
    nonce := (← a.nat? "nonce").toUInt64
    signature := ← a.bytes? "sig", values := ← (a.get? "md").bind parsePairs, body := ← a.bytes? "body" }
  match pack v gz p thr with
  | .ok (bs, p') => pure s!"ok {showBytes bs} gzip={if p'.gzip then 1 else 0}"
  | .err _ => pure "err"
  | .panic _ => pure "panic"

def opUnpackBytes (a : Args) : Option String := do
  let v ← parseVer a
  let gz ← oracleOf a
  let codec ← a.nat? "codec"
  let bs ← a.bytes? "hex"
  match unpackBytes v gz codec.toUInt8 bs with
  | .ok p => pure s!"ok {showPacket p}"
  | .err _ => pure "err"
  | .panic _ => pure "panic"

def specFrameOf (a : Args) : Option Spec.Frame := do
  pure { type := ← a.nat? "type", verify := ← a.nat? "verify", gzip := ← a.nat? "gzip", reserve := ← a.nat? "reserve",
         cmd := ← a.nat? "cmd", rid := ← a.nat? "rid", timeout := ← a.nat? "to", status := ← a.nat? "st",
         md := ← a.bytes? "md", body := ← a.bytes? "body", nonce := ← a.nat? "nonce", sig := ← a.bytes? "sig" }

def opSpecEncode (a : Args) : Option String := do
  let v ← parseVer a
  let f ← specFrameOf a
  pure (showBytes (Spec.encode v f))

/-- splits a byte stream into frames with the independent spec decoder (C12's parser) -/
partial def specSplit (v : Ver) (bs : Bytes) (acc : List String) : List String × Nat :=
  match Spec.decode v bs with
  | none => (acc.reverse, bs.length)
  | some (f, rest) =>
    if rest.length ≥ bs.length then (acc.reverse, bs.length) else
    specSplit v rest (s!"[t={f.type} c={f.cmd} r={f.rid} bl={f.body.length} fnv={(fnv1a f.body).toNat}]" :: acc)

def opSpecSplit (a : Args) : Option String := do
  let v ← parseVer a
  let bs ← a.bytes? "hex"
  let (fs, left) := specSplit v bs []
  pure s!"frames={fs.length} left={left} {" ".intercalate fs}"

def frameOps : List (String × (Args → Option String)) :=
  [("pack", opPack), ("unpackbytes", opUnpackBytes), ("spec.encode", opSpecEncode), ("spec.split", opSpecSplit)]

end Driver
