/-
T1 for the client views that are pure decision logic: the harness scripts a recovery (per-attempt environment outcomes,
configuration, stored session), observes what the real client does at the scripted peer, and this driver evaluates the
Lean model (`Reconnect.recover`, `Keepalive.checkFails`, `Dispatch.dispatchAll`) on the same script.

`reconnect.run max=<n> token=<0|1> session=<none|exp> count=<n> losses=<loss>|<loss>…`
   loss   = env;env;…            (the attempts of one recovery, in order)
   env    = now,dial,first,second   dial ∈ {1,0}; first/second ∈ ok<exp> | unauth | other | none
 output: per loss the observable projection of the model's actions and its result, then the final state.
-/
import Driver.Util
import OAP.Model.Client.Reconnect
import OAP.Model.Client.Keepalive
import OAP.Model.Client.Dispatch
namespace Driver
open OAP OAP.Reconnect

def parseReq (s : String) : Option Req :=
  if s == "unauth" then some .unauthenticated
  else if s == "other" then some .otherStatus
  else if s == "none" then some .noAnswer
  else if s.startsWith "ok" then (s.drop 2).toString.toNat?.map .ok
  else none

def parseEnv (s : String) : Option Env :=
  match s.splitOn "," with
  | [now, dial, first, second] => do
    let now ← now.toNat?
    let f ← parseReq first
    let g ← parseReq second
    pure { now := now, dialOk := dial == "1", first := f, second := g }
  | _ => none

/-- observable projection of one action; the session presented by a reconnect request is the stored one -/
def showAct (sess : Option Nat) : Act → Option String
  | .dial => some "dial"
  | .resetKeepalive => some "up"
  | .sendReconnect => some s!"rec:{sess.getD 0}"
  | .sendAuth => some "auth"
  | .afterReconnected => some "AFTER"
  | .sleep => some "sleep"
  | .closeClientHitMax => some "HITMAX"
  | _ => none

/-- the retry loop attempt by attempt (so that every reconnect request can be labelled with the session stored when
    it was sent); its concatenated actions and result are compared with `recover` itself -/
def runLoss (cfg : Cfg) : RS → List Env → RS × List String × Option Result
  | st, [] => (st, [], none)
  | st, e :: es =>
    match attempt cfg st e with
    | (st', a, .success) => (st', (a ++ [Act.afterReconnected]).filterMap (showAct st.session), some .success)
    | (st', a, .hitMax) => (st', (a ++ [Act.closeClientHitMax]).filterMap (showAct st.session), some .hitMax)
    | (st', a, .fail) =>
      let (st'', a', r) := runLoss cfg st' es
      (st'', (a ++ [Act.sleep]).filterMap (showAct st.session) ++ a', r)

def showResult : Option Result → String
  | some .success => "success" | some .hitMax => "hitmax" | some .fail => "fail" | none => "pending"

def opReconnectRun (a : Args) : Option String := do
  let max ← a.nat? "max"
  let token ← a.nat? "token"
  let count ← a.nat? "count"
  let sess ← a.get? "session"
  let session : Option Nat ← if sess == "none" then some none else sess.toNat?.map some
  let losses ← a.get? "losses"
  let cfg : Cfg := { maxReconnect := max, hasToken := token == 1 }
  let mut st : RS := { session := session, count := count }
  let mut outs : Array String := #[]
  for l in losses.splitOn "|" do
    let envs ← (l.splitOn ";").filter (· ≠ "") |>.mapM parseEnv
    let (st', acts, r) := runLoss cfg st envs
    -- the labelled loop and `recover` are the same function up to the labels
    let (st2, acts2, r2) := recover cfg st envs
    if st2 != st' || r2 != r || (acts2.filterMap (showAct none)).length != acts.length then
      outs := outs.push "driver-inconsistent"
    outs := outs.push s!"[{" ".intercalate acts}] {showResult r}"
    st := st'
  let sessStr := match st.session with | some e => toString e | none => "none"
  pure s!"{" | ".intercalate outs.toList} ; count={st.count} session={sessStr}"

/-- `keepalive.check last=<id> elapsed=<ms> timeout=<ms>` → `fail` | `ok`: the decision of `check()` -/
def opKeepaliveCheck (a : Args) : Option String := do
  let last ← a.nat? "last"
  let el ← a.nat? "elapsed"
  let to ← a.nat? "timeout"
  -- lastPong = 0, t = elapsed: t - lastPong > timeout
  pure (if Keepalive.checkFails { interval := 0, timeout := to } { lastId := last, lastPong := 0, nextId := 0 } el then "fail" else "ok")

/-- `dispatch.run cap=<n> subs=<cmd>:<h>,<h>;… frames=<p|r|q><cmd>.<tag>;…`: the reader enqueues every frame (dropping on a full
    queue) and the dispatcher then drains the queue — the scripted peers send a burst and wait, so this is the interleaving the
    scenario produces when the queue is large enough; output: the handler log `h.tag …`, then the warnings -/
def opDispatchRun (a : Args) : Option String := do
  let cap ← a.nat? "cap"
  let subsS ← a.get? "subs"
  let framesS ← a.get? "frames"
  let table : List (Nat × List Nat) ← ((subsS.splitOn ";").filter (· ≠ "")).mapM fun e =>
    match e.splitOn ":" with
    | [c, hs] => do
      let c ← c.toNat?
      let hs ← ((hs.splitOn ",").filter (· ≠ "")).mapM String.toNat?
      pure (c, hs)
    | _ => none
  let subs : Nat → List Nat := fun c => ((table.find? (·.1 == c)).map (·.2)).getD []
  let frames : List Dispatch.Pkt ← ((framesS.splitOn ";").filter (· ≠ "")).mapM fun f =>
    let ty : Option Dispatch.PType :=
      if f.startsWith "p" then some .push else if f.startsWith "r" then some .response else if f.startsWith "q" then some .request else none
    match ty, (f.drop 1).toString.splitOn "." with
    | some ty, [c, t] => do
      let c ← c.toNat?
      let t ← t.toNat?
      pure { type := ty, cmd := c, tag := t }
    | _, _ => none
  let acts : List Dispatch.Act := frames.map .recv ++ frames.map (fun _ => .dispatch)
  -- dispatch on an empty queue is not enabled: stop draining there
  let s := acts.foldl (fun s a => (Dispatch.step cap subs s a).getD s) Dispatch.init
  pure s!"{" ".intercalate (s.log.map fun (h, p) => s!"{h}.{p.tag}")} ; warnings={s.warnings}"

def conformRecOps : List (String × (Args → Option String)) :=
  [("reconnect.run", opReconnectRun), ("keepalive.check", opKeepaliveCheck), ("dispatch.run", opDispatchRun)]
end Driver
