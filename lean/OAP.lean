-- Root of the `OAP` library: imports every module that must build.
import OAP.Base
